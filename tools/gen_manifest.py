#!/venv/bin/python
"""Regenerates /verif/MANIFEST.json from the table below (kept in one place so it stays valid)."""
import json, os, sys
HERE = os.path.dirname(os.path.dirname(os.path.abspath(__file__)))

CLAIMS = {
    # id: (category, technique, text, note, design_ref)
    "C01": ("proof", "symbolic evaluation of every factor-release site to polynomial divisibility certificates (interprocedural function summaries, inferred loop invariants)",
            "Every value that can reach util.AttachFactors is traced back through the Check body and the helper that produced it; "
            "each return of each helper must carry a certificate that holds for all inputs: g = gcd(_, n) under 1 < g < n, "
            "n // d for a certified d, or a pair whose product equals n as a polynomial identity under the dominating guards "
            "(is_square facts, inferred invariant b2 = a^2 - n, guard equalities). The modulus in the certificate must be the "
            "modulus of the very key whose test_info is written, and the attaching path must mark that key weak (entry.result = True in the Check body, and SetTestResult turns a positive entry into test_info.weak on every path, "
            "including the path that merges into an existing entry). "
            "Divisibility and weak-marking are decided for all inputs and constructor parameters; properness for the four gcd-based helpers and for CheckGCD "
            "(a proper divisor is among the recorded values unless an exhaustive search over the single moduli found none; exposed the defect repaired by fix 92289d6).",
            "Trusted: gmpy2 gcd/isqrt/is_square semantics, Python integer semantics, ast parser, the engine. "
            "Not decided: properness of Fermat-style pairs (depends on runtime max_steps vs. primality).",
            "DESIGN.md section 3 C01"),
    "C18": ("other", "abstract interpretation (interprocedural constant propagation of the empty batch) + nullness/dominance analysis",
            "Evaluates every registered Check method and the three all-checks entry points on the abstract input 'empty batch' over the "
            "domain {empty, constant, list of known length, object, unknown}, following calls through the resolver; loops over the literal "
            "CURVE_FACTORY table are executed definitely entry by entry, so every per-curve body is also evaluated on an empty partition. "
            "Only definite exceptions are violations; the result must be the constant False. Separately every value drawn from CURVE_FACTORY "
            "must be None-tested before it is dereferenced (binary-field/unknown curves), subscripts into the table must have keys of proven "
            "provenance, the issuer index map must only hold non-empty lists, every window handed to the lattice code is non-empty (window starts bounded by len(a): R-C18-WINDOW), "
            "and every Check returns its boolean accumulator without a raise in the body. R-C18-INVERT: a raw-coordinate taint (artifact points handed to EcCurve without "
            "validation, propagated through the class by a worklist; `% self.mod` makes a value canonical again) finds the modular inversions that unreduced coordinates can reach, "
            "and each must be dominated by a test of its operand modulo the prime (exposed the Add/Double ZeroDivisionError repaired by fix 388cc4e). R-C18-ALIGN: batched search results "
            "are indexed by the position in the very list that was searched (no IndexError from lists of different length). R-C18-SHIFT: a shift count that is a difference of two "
            "runtime quantities (hash length minus order length) is guarded non-negative on the path, is a range-loop index, or is non-negative by the floor lemma (ceiling differences).",
            "Trusted: Python container semantics, the abstract evaluator, gmpy2.invert raises exactly when the operand is 0 modulo the prime. Not decided: other arithmetic exceptions on degenerate values.",
            "DESIGN.md section 3 C18"),
    "C03": ("other", "abstract evaluation on the empty batch + symbolic structural induction over tree levels (polynomial step identities) + predicate-region equivalence",
            "Decides: CheckGCD/CheckGCDN1/BatchGCD on the empty batch (no definite exception, empty/False result); the product tree is built over "
            "set(values) and the result re-expanded over the input through a value-keyed dict; the level step of ExtendedProductTree satisfies "
            "T_parent = T_L*P_R + T_R*P_L and P_parent = P_L*P_R as polynomial identities with children paired (2k, 2k+1), the unpaired node carried "
            "on odd levels, base T = 1, root returned; the remainder tree's child i reads parent i // 2 and reduces only modulo its own node value; "
            "leaf gcds zipped position-wise; verdict predicates equal `gcd != 1` and `gcd >= bound` on all regions, default bound 2^128; "
            "the recorded factor is the tested gcd; a shortcut return of all ones is exact only with fewer than two distinct moduli and no extra product. Together with the lemma T = sum(P/v) == P/v (mod v) this is the exactness argument for every batch shape.",
            "Trusted: Python slice/zip semantics, gmpy2.gcd, the congruence lemma. It is an induction over tree levels read from the code, not a run on any batch.",
            "DESIGN.md section 3 C03"),
    "C04": ("other", "symbolic loop-shape proof (inferred invariant, step, order, trip count), polynomial identity for the guess, symbolic constant folding, premature-exit lint over candidate loops",
            "Decides: FermatFactor tests exactly a0 = isqrt(n)+1 ... a0+max_steps-1 (start, invariant b2 = a^2-n, step +1, test-before-advance, "
            "range(max_steps), bound flowing unmodified from the constructor) - i.e. the 'exactly when (p+q)/2 - ceil(sqrt n) < bound' clause; "
            "the guess isqrt(n + (D/2)^2) + D/2 equals q exactly for n = p(p+D) (polynomial identity); the difference table contains the six "
            "documented values for symbolic L = bitlen // 2 and the gate is exactly L < 384; the three msb variants for every listed unseeded output; "
            "no candidate-search loop of the five close-prime search functions returns its failure value or breaks without success "
            "(this rule exposed the FactorWithGuess defect, repaired by fix 73b1dbc); and FactorWithGuess is Lehman's construction: convergents u/v of p0/(n // p0), one Fermat step on 4uvn "
            "with the square test, gcd release (R-C04-LEHMAN); in FactorHighAndLowBitsEqual the perfect-square test is applied to the candidate that is carried "
            "into the next pass (so the last candidate, the one agreeing with the 2-adic root on all low bits, is tested) and the passes of one bit position advance by 2^i in total (R-C04-HIGHLOW).",
            "Not decided: that the (r, s) region stated for the equal-high-and-low-bits check is exactly what the search covers, and the prime-gap tolerance of guesses (runtime quantities); Lehman's completeness argument is trusted number theory.",
            "DESIGN.md section 3 C04"),
    "C20": ("proof", "bit-width abstract interpretation over symbolic path terms with residue splitting of n (n = c*q + r), entropy-reachability and effect analysis",
            "For each of the 13 concrete RandomBits bodies, every path to return and every residue r of n modulo the lcm of the moduli the body tests, "
            "an upper bound on bit_length(result) is derived from byte lengths (os.urandom/digest/bytes sizes, equal-size stores, slices, length facts, "
            "append counts of range loops), shifts and masks, and compared with n = c*q + r: proves result < 2^n for every n >= 1. A byte mask only "
            "counts when it is on the most-significant byte for the byte order of the following from_bytes - this is what exposes the TruncLcgRand defect "
            "(known finding, pinned by rng_test.testTruncLcg). Purity: entropy sources are reachable only under `seed is None`/falsy seed, random.getrandbits "
            "is dominated by random.seed(seed), no instance state is written; Java/truncated-LCG constants (the twelve published L'Ecuyer / Steele-Vigna multipliers are pinned in the checker) and update shape, multiplier selection; registry.",
            "Trusted: from_bytes/to_bytes/slice semantics, sizes returned by os.urandom/digest/Generator.bytes, getrandbits(n) < 2^n. "
            "Not decided: that the emulations reproduce the original bit streams beyond constants and update shape.",
            "DESIGN.md section 3 C20"),
    "C12": ("other", "constant folding of embedded tables against independently derived exact distributions; predicate-region equivalence of the insufficient-data guards; sign analysis of the cusum extrema",
            "Decides the table clause and the insufficient-data clause of the property, and one structural necessary condition of the cumulative-sums p-value: "
            "the 17 longest-run, 6 + 33 rank, 32 universal (L <= 10 quick, 16 thorough), 11 min_n, 14 linear-complexity literals and the random-excursions "
            "polynomials equal exact derivations to one unit in the last printed digit (the M = 10^4 longest-run row is NIST's published, inexact one: 7 known findings "
            "keyed by literal); table shapes agree with their consumers; each of the nine InsufficientDataError guards equals the documented minimum on all regions; "
            "the cusum extrema are provably on the right side of S_0 = 0 (exposed the defect repaired by fix 0d3e4df); and the *term shape* of the statistics of ten tests "
            "(Frequency, Runs, BlockFrequency, ChiSquare, template mean/variance, Universal correction, Serial, ApproximateEntropy, both cusum series incl. their summation "
            "bounds, random-excursion statistics) equals the SP 800-22 formula as a rational function of its function atoms (R-C12-FORMULA, pcstatic/ratfun.py). "
            "R-C12-PURE: no function of the five modules behind the tests writes state that outlives the call (globals, module-level containers directly or through an alias, mutable defaults); "
            "a module-level memo is accepted only when its key contains every input of the stored value. R-C12-LADDER: LargeBinaryMatrixRank tests every matrix 64*2^i with size^2 <= n "
            "(loop condition in canonical form), agrees with its data-size guard, and hands the size x size prefix to the rank computation. "
            "R-C12-TEMPLATE: a template is aperiodic iff no border of length 1..m-1 (equal-length prefix/suffix, every length), the default set is all aperiodic m-bit words, explicit overlapping templates are rejected. "
            "R-C12-UNIVERSAL: Maurer's last-occurrence table starts at first position - 1, each test block adds log2(position - T[b]) before T[b] is updated, p = erfc(|sum/K - expected| / sigma / sqrt 2); "
            "the excursion sub-tests are reported only under J >= c with c >= 500; R-C12-FORMULA compares every statistic at its sink (the appended / returned p-value with all intermediate values inlined), so it is independent of local names. "
            "R-C12-CONSIST is semantic: the class index of each histogram test equals clamp(T, 0, K) on a grid straddling both breakpoints, len(v) = K + 1, table of the same row/parameters, ladder visited in descending min_n.",
            "Not decided: the floating-point *values* of the p-values, the [0,1] range and the invariance clauses (runtime values).",
            "DESIGN.md section 3 C12"),
    "C09": ("proof", "symbolic evaluation to polynomial identities modulo n (congruence stripping of `% n`, inverse atom), piecewise region equivalence, converter writer/reader agreement",
            "HiddenNumberParams: with si = invert(s, n) the returned pair satisfies a + b*d - si*(z + r*d) == 0 as a polynomial identity after stripping the reductions "
            "modulo the one modulus self.n, hence k = a + b*d for every valid signature. TransformOrderLen equals RFC 6979 bits2int-then-reduce on all regions of "
            "hlen vs qlen = n.bit_length(). ECDSAValues feeds r, s and the hash with 8*len of the same bytes; the single consumer pairs (a[i], b[i]) from one triple. "
            "Bytes2Int/Int2Bytes are big-endian with minimal length, Hex2Bytes left-pads, PublicPoint keeps coordinate order.",
            "Trusted: gmpy2.invert, int.from_bytes/to_bytes, the RFC transcription. Hypothesis: the ECDSA signing equation.",
            "DESIGN.md section 3 C09"),
    "C11": ("proof", "symbolic evaluation of every formula block to exact rational identities (congruence stripping, inverse clearing), path-wise dispatch tables, constant folding + checker-side EC arithmetic for the curve literals",
            "All 16 formula blocks of EcCurve (Add, Double, Negate, Subtract, DoubleJacobian x2, AddJacobian, JacobianToAffine, BatchJacobianToX/Affine, BatchAddList, "
            "BatchDouble, BatchAdd, BatchAddX, BatchAddSubtractX sum and difference) are proved equal to the chord-and-tangent law as exact identities of rational "
            "functions in the coordinates, with shared inverses traced back to the denominators stored in the request loop; special-case dispatch (infinity, equal, "
            "opposite, 2-torsion, missing shared inverse) is checked path by path; the nine curve literals are prime-field, non-singular, G on curve, n prime, n*G = inf, Hasse-consistent. "
            "R-C11-SCALAR: Multiply and MultiplyAffine are proved by induction on their stated invariant res + n*p = N*P in a group-coefficient domain (entry for both signs of n, both parities "
            "of the counter via n = 2*(n//2) + n%2, exit at counter 0, shortcut returns). R-C11-COMB: the generator comb reduces every scalar to [0, n) before bit extraction (range proof incl. "
            "conditional expressions), multiplier = (s >> i) & mask with cached multiples of G, teeth and offsets tile the bits of the order, Horner accumulation double-then-add. "
            "R-C11-BATCHINV: Montgomery's simultaneous inversion is checked against declared invariants in an exponent domain (product = pre(i), res[i] = pre(i); inverse = pre(i+1)^-1; "
            "res[i] = pre(i)*inverse = v_i^-1), zero/None entries skipped in both passes, the list returned only after the backward pass.",
            "Trusted: gmpy2.invert contract, congruence of `% mod`, the bit-decomposition lemma of the comb.",
            "DESIGN.md section 3 C11"),
    "C02": ("other", "dominance of verifying comparisons over release sites on identical symbolic values (symbolic path walk), index-codec agreement, untrusted-source sanitisation (taint) analysis",
            "Every non-None store into BatchDL's result is dominated by Multiply(g, dl) == points[i] on x and y (resp. negated y for -dl); relation strings of "
            "BatchDLOfDifferences are formatted from exactly the (q, dl) for which Subtract(p, q) == Multiply(g, dl) was tested, the mirrored entry at j - len(other) "
            "with the negated list aligned by exactly one unconditional append per outer iteration; ExtendedBatchDL's writer index i + num_points*j and reader pair "
            "(k % num_points, k // num_points) agree; every DISCRETE_LOG sink records V[i] on artifact i of the very list whose images were searched with the curve "
            "the list was filtered by; signature checks mark weak only under `i in _IssuerDLogs(...)` with an entry that is fresh or given its result in the same iteration, and _IssuerDLogs stores guesses[i] only if "
            "BatchMultiplyG(guesses)[i] is an issuer point; the U2F guess is released only after x1 == x2.",
            "Trusted: Multiply/BatchMultiplyG compute the group law (formulas C11, loops undecided). Hypothesis: recorded points are valid points of order n.",
            "DESIGN.md section 3 C02"),
    "C10": ("other", "symbolic coverage inequalities (floor/ceiling lemmas over extracted step and size expressions), cache descriptor/content agreement, symbolic folding of the multiplier families",
            "Boundary arithmetic of the baby-step/giant-step search is proved for all table sizes T >= 1 and bounds n: candidates are {j*t + i, j*t - i}; adjacency "
            "t <= 2T - 1; reach (G-1)*t + T - 1 >= n - 1 with the extracted G = 2 + n // t by the floor lemma (a residual that is not provably >= 0 is reported); "
            "PointTable covers [0, N) (m*r >= N by the ceiling lemma, index i*m + j, both sequences of the right length); PointSequence yields 0..k-1 multiples; "
            "the cached table is rebuilt only when a larger one is requested and always matches its stored size; multiplier families 2^(8j) and repeated 32-bit words are complete, "
            "bound 2^32; only identical points are skipped and the early return only fires without pairs; the comparison list of the difference search stays aligned with the batch "
            "(one append per outer iteration) and both relation stores name the right pair (rows shared with C02); every pass of the giant-step loop looks its x-coordinate up in the table (the table maps None to 0, so exact multiples of the giant step are found through the point at infinity).",
            "Trusted: the two floor-division lemmas, int(math.sqrt) for these magnitudes, group-law correctness of the batched additions (C11). Assumes T >= 1.",
            "DESIGN.md section 3 C10"),
    "C19": ("proof", "declared loop invariants checked by symbolic execution of one iteration + polynomial step identities and exponent inequalities; release-guard dominance for the root finders",
            "Inverse2exp: invariant a*n == 1 (mod 2^t): base n mod 4 with t = 2 for odd n, step identity a'n - 1 = -(an - 1)^2, exponent t' = min(k, .) <= 2t, reduction modulo 2^t', "
            "loop while t < k, None exactly for even n. InverseSqrt2exp: invariant a^2 n == 1 (mod 2^t): base (1, 3) under n == 1 (mod 8), identity 4(a'^2 n - 1) = e^2 (e - 3), "
            "t' <= 2t - 2, None for k >= 3 exactly when n % 8 != 1. Sqrt2exp returns {r, M - r, H - r, H + r} with r the inverse of the inverse square root, [] iff none exists, "
            "exhaustive filter for k < 3. DivmodRounded: a = x*b + y by the divmod axiom and |y| <= b/2 for every residue of b modulo 2 (exposed the defect repaired by fix 16e0547). The three small-root finders release a root only under "
            "the divisibility test on f(root) of the same root. ContinuedFraction is the Euclid recurrence and appends (q, r, t) after the update. "
            "R-C19-BIAS: lattice_suite.Bias is UniformSumCdf(#terms, 2*T/n) with T the sum over sample x transforms of min(r, n - r), r = (a*s + b) % n, and the count handed to the "
            "Irwin-Hall CDF equals the number of additions into T (closed form of the accumulation: product of the trip counts of the enclosing loops). R-C19-PSEUDOAVG: PseudoAverage tries every prefix shift, its variance-change "
            "expression satisfies n * diff = m(2n sx + j n^2) - 2 S j n - (j n)^2 as a polynomial identity, keeps the strict minimum from (0, 0) and returns the rounded mean mod n. "
            "R-C19-PURE: no helper of ntheory_util, linalg_util, small_roots, lattice_suite, randomness_tests.util writes state that outlives the call (a memo is accepted only when keyed by every input of the stored value).",
            "Not decided (runtime values): the rational solver (echelon_form's row moves), completeness of the small-root finders, Sieve, UniformSumCdf, CombinedPValue numerics; product trees are under C03.",
            "DESIGN.md section 3 C19"),
    "C06": ("other", "predicate-region equivalence of extracted path conditions (integer comparisons + opaque boolean atoms), constant folding of tables, for-all loop shape analysis, string-grammar writer/reader agreement",
            "For CheckSizes, CheckExponents, CheckWeakCurve, CheckValidECKey, EcCurve.IsValidPublicKey, OnCurve, CheckROCA, CheckROCAVariant, both ROCA detectors and "
            "CheckOpensslDenylist the disjunction of path conditions under which the verdict is positive is extracted and proved equivalent to the specification predicate "
            "on every region / boolean assignment (flag set <=> criterion, on the same key). Prime tables equal the checker's sieve; the discrete-log membership loop "
            "enumerates the whole cyclic group compare-then-multiply; the denylist key grammar agrees between check and storage (evaluated on an abstract 40-digit digest); "
            "keypair table key / seed reconstruction / regeneration size; the keypair generator emulation replays the vulnerable generator's control flow (retry loop keeps the larger prime, "
            "mod-30 wheel table, byte window, sha1 seed chain: R-C06-KEYGEN); proto CurveType vs CURVE_FACTORY exhaustiveness with binary-field curves mapped to None.",
            "Not decided: that the shipped keypair table is complete for all covered seeds (binary data; regeneration needs AES at run time). Some structure checks of __init__ bodies compare normalised statements.",
            "DESIGN.md section 3 C06"),
    "C13": ("other", "decision-table extraction over the finite weak orderings of the compared quantities (symbolic path walk incl. except handlers), truth tables, structural entry-point and registry analysis",
            "Decides the third sentence of the property (the decision rule): per named p-value the state is FAILED iff the Fisher combination is below the fail level, "
            "else PASSED iff the combined repeat level is below it, else UNDECIDED - checked on all 13 weak orderings; the new value is appended before combining, the repeat level "
            "is combined over the same count, `undecided` counts exactly the UNDECIDED names, finished <=> undecided == 0 and runs >= min_repetitions, InsufficientDataError "
            "finishes without a state; TestSource repeats with fresh bits while some test is unfinished and both entry points return any(Failed) over the complete registry "
            "(NIST + extended + lattice, every public test function registered); CombinedPValue has the four-case Fisher shape. One structural necessary condition of the "
            "second sentence: the large-matrix-rank test examines every power-of-two matrix that fits, including the exactly fitting one the documentation names as the detector (R-C13-RANK, shared with C12), "
            "and one of the first: random-excursion p-values are only reported above 500 cycles, where their approximations hold (R-C13-GATE).",
            "Not decided: that good generators pass and the documented weak ones fail (statistics on runtime values).",
            "DESIGN.md section 3 C13"),
    "C14": ("other", "refinement typing of the pure-Python Berlekamp-Massey loop in an alignment domain (ghost polynomials, symbolic path walk); piecewise power-of-two exponent extraction + small linear-arithmetic prover; region equivalence of the domain guards; writer/reader agreement across the Python/C++ boundary (regex/brace scan)",
            "Decides the second sentence of the property completely: LfsrCount equals 2^min(2m-1, 2n-2m) for 1 <= m <= n, 1 for m = 0 and 0 outside 0 <= m <= n, n >= 1; "
            "LfsrLogProbability equals that exponent minus n and raises outside the domain (piece by piece, with the split m <= n // 2 justified by the floor lemma); "
            "the reference distribution is cross-validated in the checker by a textbook Berlekamp-Massey over all sequences up to length 11 (14 thorough). "
            "And one interface clause that is a necessary condition of the first sentence: byte order, bit-length unit, range checks and exported name agree between "
            "LinearComplexity (Python), LfsrLength/LfsrLengthStr (C++), the pybind stub and setup.py. "
            "R-C14-BM decides the pure-Python part of the first sentence: with sc = (s*C) >> (n - m) and sb = (s*B) >> (nb + 1) every loop path of LinearComplexityNative is Massey's update "
            "(discrepancy = coefficient n of s*C; C += x^(n-nb) B; (B, nb, L) <- (C, n, n+1-L) iff 2L <= n), from C = B = 1, L = 0 over range(length), returning L.",
            "NOT decided: that the two C++ variants (CLMUL / word-shift) return the shortest-LFSR length and agree with the Python routine - a Python-ast engine does not parse C++ semantics. Trusted: Massey's theorem.",
            "DESIGN.md section 3 C14 and section 4"),
    "C17": ("other", "effect (who-may-write) analysis over the whole package + loop-carried dependence analysis through loop-head symbols + cache descriptor/content agreement",
            "Decides independence of state, the structural part of the property: no function reachable from a Check writes instance or module-level state outside constructors, "
            "except seven frozen entries (three EcCurve caches, a per-key Generator object) and the registry singletons; in the 17 checks that judge artifacts individually no "
            "variable other than the boolean accumulator is read in an iteration before it is reassigned (so nothing flows from one artifact to the next); the cached baby-step table "
            "always matches its stored size, is rebuilt only when a larger one is requested, and the multiples memo maps k to Multiply(g, k); BatchGCD maps results by value; "
            "per-curve partitions are disjoint filters mapped back by their own index; the pairwise difference search compares every unordered pair whatever the order (rows shared with C10/C02).",
            "Not decided: permutation-equivariance of LLL-based guesses (the set -> list order of signatures feeds the lattice) - a runtime property.",
            "DESIGN.md section 3 C17"),
    "C05": ("other", "constant folding and symbolic comparison of enumerations, cut-offs and denominator formulas (necessary conditions only)",
            "Decides that the enumerations and cut-offs the detection region depends on are at least what the property states: default pattern sizes, cut-off bit_length // K with K <= 16 "
            "(oversize sizes skipped with continue, never break), permuted-pattern word/pattern ranges and cut-off K' <= 10, the denominator formulas 2^w - 1 and "
            "(2^p - 1)(2^(pw) + 1)/(2^w + 1) as symbolic identities, Pollard defaults (2^20-smooth, 2^64-powersmooth for 150 primes), gate and both-smooth verdict, "
            "Hamming-weight thresholds and defaults; no candidate loop of the five patterned/sparse search functions gives up early outside four documented cut-offs (R-C05-EXHAUST); "
            "CheckFraction / CheckContinuedFraction / CheckLowHammingWeight build the documented lattice, candidate and quadratic constructions (R-C05-CONSTRUCT).",
            "NOT decided: that the lattice reduction / best-first search then finds the factorisation inside the stated region (runtime behaviour of LLL and heuristics).",
            "DESIGN.md section 3 C05"),
    "C07": ("other", "one-sided threshold comparison (constant folding + dominance of the guarding comparison) and a frozen certificate/threshold classification of all registered checks",
            "The false-positive rate itself is a statement about a distribution and is not decidable statically. Decided: every default the 2^-37 design value rests on is at least as "
            "strict as documented (continued-fraction bound >= 2^48 and actually used, GCDN1 bound >= 2^128, Pollard gate >= 2^60 dominating every positive return, Hamming-weight "
            "threshold <= bitlen - 12 compared with <=, >= 48 / >= 39 ROCA primes with ROCA hits excluded from the variant); and each of the 29 registered checks is either "
            "certificate-backed (every positive path records a verified factor / key: cannot accuse a healthy artifact, by C01/C02) or one of 12 frozen threshold-backed checks. "
            "R-C07-NEIGHBOUR decides the structural part of the last sentence: batch results are mapped back to the artifact they were computed for (BatchGCD element-wise, per-curve partitions "
            "indexed by their own enumeration) and the entry recorded for an artifact is fresh or gets its result in the same iteration (no verdict leaks from a weak neighbour).",
            "State independence across calls is C17. Sizes/Exponents cannot fire under the property's own hypothesis (>= 2048 bits, e = 65537).",
            "DESIGN.md section 3 C07"),
    "C08": ("other", "structural necessary conditions by symbolic path walk and constant folding (grouping, aligned windows, table/consumer agreement, strategy decision table)",
            "Lattice success is NOT decided. Decided: signatures are partitioned per curve and per issuer and the per-issuer (r, s, z) set is built from that issuer's indices with the "
            "partition's curve; window sizes include 24/48/120, a and b are sliced identically with stride = size, guesses are accumulated, the early break only fires when one window "
            "holds everything; every signature index of a verified issuer is assigned; each of the 18 LCG model entries has 1 <= min_signatures <= sliding_window_size <= sample_size, "
            "enough constants for the largest prefix the subset generator can request, w a power of two and a supported curve; DEFAULT = SINGLE|SLIDING|INCLUDE_KEY and the three regimes "
            "yield a problem whenever len(a) >= min_signatures - 1; U2F basis, gate and sliding pair + single window; the entry recorded for a signature is created or given its "
            "result in that signature's own iteration, so other issuers keep their own verdict (R-C08-OWN); the candidate keys handed to _IssuerDLogs are only ever grown inside "
            "the per-issuer loop and every lattice result is added (R-C08-ACCUM); _IssuerDLogs assigns the guess to every signature index of the matched issuer (R-C08-MARKALL, from the loop structure).",
            "R-C08-SUBSETS reads the generator's yield events: identical selections of a and b, ceil(sample_size / signatures) constants (floor-division forms recognised), regime coverage evaluated on a grid of (len(a), window, min_signatures).",
            "DESIGN.md section 3 C08"),
    "C16": ("other", "typestate / who-may-write analysis over the AST + symbolic path walk of all 24 Check bodies",
            "Decides, for every path of every Check body in the package, that each loop iteration records exactly one "
            "result entry on that iteration's artifact with an entry created in the same iteration, that the positive flag, "
            "the returned accumulator and attached evidence lie on the same paths, that util.SetTestResult updates "
            "monotonically (truth tables of the extracted operators), that no other code clears or rewrites the "
            "bookkeeping fields, that severities equal the README table and that the registries are complete. "
            "Holds for all batches and histories because it is a property of the code's shape, not of a run.",
            "Trusted: Python ast, protobuf field semantics, the engine itself (validated by selftest/run.py twins and mutants). "
            "Not decided: that protobuf append stores the entry object (library semantics).",
            "DESIGN.md section 3 C16"),
}


# additions of seeded round 5 (DESIGN.md 9.12), appended to the texts above
ROUND5 = {
    "C02": " R-C02-VERIFY: the scalar multiplication and the comb that re-derive a key before a log is released are exact (shared with C11).",
    "C03": " R-C03-OWN: the entry recorded for a key was created and given its result in that key's own iteration (shared with C16).",
    "C04": " R-C04-LISTED: the five per-size lists of unseeded outputs are siblings (equal lengths, widest entry = key), looked up by the requested size.",
    "C05": " R-C05-HW also decides that the low-Hamming-weight search discards a pair of partial factors only outside the documented invariant 0 <= rem0 <= p0 + q0.",
    "C06": " R-C06-OWN: each of the eight closed-form checks records for an artifact the verdict computed for that artifact (shared with C16).",
    "C07": " R-C07-TREE: product and remainder tree obligations shared with C03 (a single healthy key is judged through a tree of one value); R-C07-EXACT takes every flag predicate of C06 one-sidedly.",
    "C08": " R-C08-GUESS / R-C08-FEED: the comb multiplication that accepts a lattice guess and the (r, s, z) extraction are exact (shared with C11 / C09); partitions are recognised by value (filter on curve_type == id, id over the factory keys or the batch's curve types).",
    "C12": " R-C12-RANGE: every p-value sink of every registered test is a range-[0, 1] primitive, erfc of a non-negative quotient, a probability table entry, a function held to the same rule, or enclosed in [0, 1] by interval arithmetic (exposed the cumulative-sums overshoot repaired by fix 9350a9e). R-C12-BITS: util.Bits has exactly `length` entries mapped 0 -> -1, 1 -> +1.",
    "C13": " R-C13-CTOR: the decision structure stores its levels and repetition minimum unchanged and starts unfinished with zero runs; R-C13-SF: the survival probabilities of the large-rank test (shared with C12).",
    "C16": " R-C16-MONO includes the merge clauses of AttachFactors (shared with C01): re-running never clears a recorded factor.",
    "C17": " The excepted instance state (curve memo and tables) must be bound afresh by the constructor: a class attribute or mutable default shared by all curve singletons is a violation.",
    "C18": " R-C18-INTPOW: an integer power b ** (x - c) on a path gated by x >= g needs g >= c (a negative exponent is a float that isqrt / floor division reject).",
    "C19": " R-C19-SQRT reads the small-k filter as a condition tree (x^2 == n modulo 2^k for unreduced n); R-C19-ROOTS: no candidate root inside (-b, b) leaves the candidate loop unverified.",
    "C20": " Filling loops (while k * len(x) < n: x += chunk) are summarised exactly, and bounds that depend on constructor arguments are decided once per registry instance.",
}
ROUND6 = {
    "C04": " R-C04-EXHAUST also rejects a `continue` that skips a candidate before it is tested.",
    "C05": " The Pollard product is read from values on both constructor paths and the pairwise product tree keeps the unpaired element (shared with C03).",
    "C06": " A criterion over an integer field that the code compares as raw bytes is a violation (encodings differ by leading zeros); len(b.lstrip(0)) is related to the bit length by a lemma.",
    "C08": " Window sizes, sliced lists and curve are recognised by value; sibling models agree on the lattice weight.",
    "C09": " R-C09-PAIR: the two lists given to the hidden-number solver hold (a_i, b_i) of the same signature at the same index.",
    "C17": " R-C17-OWN: each recorded entry is created and decided in its artifact's own pass (24 bodies); the cached table holds what its size claims (shared with C10).",
    "C18": " R-C18-NEXT: next() needs a default or an endless iterator; R-C18-JACOBIAN: no all-zero Jacobian triple reaches the conversion (shared with C11).",
}
ROUND7 = {
    "C01": " Records are looked up by exactly their own name and updated in place; the stored factor set is a union (shared with C16).",
    "C03": " R-C03-RECORD: the helpers the two checks record through (exact lookup, update of an existing record, union of factor sets) - shared with C16 / C01.",
    "C04": " R-C04-ALWAYS: every key of a batch is searched in every call; R-C04-RECORD: recording helpers (shared).",
    "C07": " R-C07-REPEAT: identical EC keys do not accuse each other (shared with C10) and no check keeps state that accuses a re-scanned key (shared with C17).",
    "C08": " R-C08-WEIGHT: the default lattice weight per sample count equals the validated ladder; the batched doubling / addition formulas under the comb are exact (shared with C11).",
    "C10": " R-C10-ARITH: the x-only batched additions the searches compare with agree with Add in every special case (shared with C11).",
    "C12": " The block-frequency ladder doubles exactly while n // m >= 100.",
    "C13": " R-C13-HOLDOUT: FindBias measures the bias on blocks the multiplier was not fitted on.",
    "C14": " R-C14-SCATTER: each scattered sub-sequence is analysed with its own length; closed forms that are not in provable shape are evaluated on a grid for counterexamples.",
    "C16": " GetHighestSeverity takes the maximum over positive entries only; both lookups match names exactly; AttachInfo updates existing records.",
    "C17": " The batch accumulator never steers how an artifact is examined.",
    "C18": " R-C18-SANITY: the U2F sub-problem only yields pairs on which the relation was tested (no ArithmeticError from the consumer's sanity check).",
    "C19": " R-C19-TREE / R-C19-FISHER: product trees and the Fisher combination (shared with C03 / C13).",
}
ROUND8 = {
    "C02": " R-C02-VERIFY also carries the Jacobian formula / special-case rows Multiply is built from, and AffineToJacobian.",
    "C08": " R-C08-LATTICE: the bases handed to LLL (GetLattice x 4 kinds of bias with explicit and default weights, precomputed-constants lattice, U2F sub-problem) are read off the source as write tables and must have the rows of the documented basis at sample lengths; R-C08-EXTRACT: guesses are v[1]/v[0] mod n of every usable row, U2F pairs and key formulas; R-C08-SUBSETS: every model of the curve is tried and every generated problem is solved with the order of its curve.",
    "C11": " AffineToJacobian: finite -> (x, y, 1), infinity -> z = 0.",
    "C12": " R-C12-OVERLAP: the overlapping-template test (Markov transition matrix as a write table, distribution, tallies, defaults); formula rows for the approximate-entropy sum, the normal CDF, util.Runs, util.Dft and the spectral test; R-C12-DEFINED: no local of the statistical modules is read before it is bound (definite assignment).",
    "C13": " R-C13-SEARCH: FindBiasImpl builds the documented lattice from the training blocks, takes the multiplier from the first usable reduced row and fits / measures with that multiplier; R-C13-DEFINED.",
    "C18": " R-C18-DEFINED: definite assignment of every local in 156 functions (an unbound local raises instead of returning a boolean); R-C18-ATTRS: every self.x read is bound by the constructor on all paths; BatchGCD returns one entry per input; lattice-row inverses and table look-ups are guarded.",
    "C19": " R-C19-LINALG: back-substitution, solve_right and the fraction-free elimination (row operations mirrored on b, exact division by the previous pivot, row and pivot sweeps, row moves); R-C19-SIEVE; R-C19-UNIFORMSUM (Irwin-Hall series, reflection, normal approximation).",
    "C20": " R-C20-DEFINED: definite assignment in rng.py; R-C20-ATTRS: attributes read through self are bound by the constructor.",
    "C07": " R-C07-NEIGHBOUR also carries the comparison-list alignment of the difference search and the batch/values agreement of CheckGCD.",
    "C10": " R-C10-LOOKUP: table entries are read only for candidates found in the table and every hit is verified.",
    "C16": " GetHighestSeverity hands back the maximum only if it was raised above a start value below every severity, else None.",
}
ROUND9 = {
    "C06": " The subgroup test rests on Multiply returning the exact multiple n * p (row shared with C11).",
    "C09": " The pairs of an issuer come from that issuer's own signatures: index map and indexed list are the same per-curve sub-batch (rows shared with C08).",
    "C12": " R-C12-LADDER also evaluates the block-size and Q terms Universal hands to UniversalImpl at every bound of the NIST table (largest admissible L); R-C12-UNIVERSAL: K is the number of blocks left after the Q initialisation blocks; R-C12-CONSIST: the rank test uses disjoint consecutive groups of r rows; R-C12-CYCLES: the digit loop of the excursion tests (count once inside the band, close and renew the cycle at zero, last cycle appended), decided by evaluating the branch conditions on a grid of new states; R-C12-RANKDP: the column-by-column recurrence of the rank distribution and the shape of its result; R-C12-CUSUM: each extremum is exact (loop value only where non-zero, fall-back only where it is 0); names that resolve nowhere (NameError) are reported by R-C12-DEFINED.",
    "C14": " Closed forms that leave the provable shape are evaluated with exact fractions (2 * 4^(m-1) at m = 0 is 1/2, which int() truncates).",
    "C17": " R-C17-BYVALUE also carries the product / remainder tree rows (whether two moduli meet does not depend on the batch size).",
    "C18": " R-C18-NULL: the optional result of InverseSqrt2exp is consumed untested only where n % 8 == 1 and k >= 3 are known; R-C18-ALIGN also carries the index maps of the per-curve ECDSA checks; R-C18-DEFINED reports names that resolve neither locally, in the module nor in the builtins.",
    "C19": " R-C19-LINALG: a row moved away from a zero pivot is re-inserted at the last active position (bound - 1).",
}
ROUND10 = {
    "C05": " R-C05-HW: the Hamming-weight search starts from (1, 1) at a bit position for which the documented invariant holds at every modulus length (evaluated as a term of bit_length(n)); thresholds found by role.",
    "C07": " R-C07-NEIGHBOUR also carries the grouping of issuer keys by curve type and point (R-C16-ISSUER).",
    "C08": " R-C08-FEED also carries the truncation rows of C09; R-C08-OWN the key / flag alignment rows of C02 for the ECDSA checks.",
    "C09": " The truncation is decided under every relative order of the symbolic operands (a dependence on the hash value is seen); Hex2Bytes by value (the text itself is decoded).",
    "C12": " R-C12-DOMAIN: Igamc arguments that combine three or more rounded terms are clamped at 0, and the divisor of the runs statistic is excluded from vanishing (frequency prerequisite of 2.3.4).",
    "C14": " A true division of an unbounded power inside a closed form (float) is a violation.",
    "C16": " R-C16-ISSUER: the issuer map is keyed by curve type and point; R-C16-ONCE also carries BatchGCD's one entry per input.",
    "C17": " R-C17-BYVALUE also carries the issuer-key grouping; R-C17-CACHE the adjacency of the giant-step windows for the requested table size.",
    "C18": " R-C18-ALIGN also carries the reader / writer agreement of the recorded factor set (ValueError on a second AttachFactors otherwise).",
}
for _pid, _extra in ROUND10.items():
  ROUND9[_pid] = ROUND9.get(_pid, "") + _extra
for _pid, _extra in ROUND9.items():
  ROUND8[_pid] = ROUND8.get(_pid, "") + _extra
for _pid, _extra in ROUND8.items():
  ROUND7[_pid] = ROUND7.get(_pid, "") + _extra
for _pid, _extra in ROUND7.items():
  ROUND6[_pid] = ROUND6.get(_pid, "") + _extra
for _pid, _extra in ROUND6.items():
  ROUND5[_pid] = ROUND5.get(_pid, "") + _extra
for _pid, _extra in ROUND5.items():
  _c = CLAIMS[_pid]
  CLAIMS[_pid] = (_c[0], _c[1], _c[2] + _extra, _c[3], _c[4])

NOT_APPLICABLE = {
    "C15": "every clause is value equality of shift/mask loops over runtime integers (fast path == slow path == definition); "
           "no sound static abstraction in reach relates them (DESIGN.md section 4)",
}

PENDING_REASON = "not claimed yet in this snapshot: rule module under construction (see DESIGN.md Appendix B build order)"


def main():
  props = [json.loads(l)["id"] for l in open(os.path.join(HERE, "properties.jsonl"))]
  checks = []
  for pid in props:
    if pid in CLAIMS and os.path.exists(os.path.join(HERE, "rules", pid.lower() + ".py")):
      cat, tech, text, note, ref = CLAIMS[pid]
      checks.append({
          "property_id": pid,
          "quick_cmd": "/venv/bin/python /verif/check.py %s --tier quick" % pid,
          "thorough_cmd": "/venv/bin/python /verif/check.py %s --tier thorough" % pid,
          "evidence_file": "/verif/evidence/%s.json" % pid,
          "replay_cmd_template": "/venv/bin/python /verif/check.py %s --explain {path}" % pid,
          "engine": "pcstatic",
          "level_claimed": {"category": cat, "text": text, "design_ref": ref},
          "level_note": note,
          "technique": tech,
      })
  na = []
  for pid in props:
    if pid in [c["property_id"] for c in checks]:
      continue
    na.append({"property_id": pid, "reason": NOT_APPLICABLE.get(pid, PENDING_REASON)})
  man = {
      "version": 1,
      "setup_cmd": "/venv/bin/python -c \"import sys; sys.dont_write_bytecode=True; sys.path.insert(0,'/verif'); "
                   "import pcstatic.core, pcstatic.loader, pcstatic.sym, pcstatic.algebra, pcstatic.fold; print('pcstatic ok')\"",
      "hooks": {
          "guard": "GOOGLE_PARANOID_CRYPTO_VERIF",
          "enable": "no hooks are needed: the checks read /repo's source and never build or run it (guard name reserved, unused)",
          "baseline_off_cmd": "cd /repo && /venv/bin/python -m pytest -ra -q -p no:cacheprovider --timeout=900 --continue-on-collection-errors",
          "source_commits": [],
          "add_only": True,
      },
      "engines": [{"name": "pcstatic", "path": "/verif/pcstatic",
                   "serves_properties": [c["property_id"] for c in checks],
                   "kind_free_text": "repository-specific static analysis: ast loader/resolver (analysis modulo alpha-renaming of locals against the pinned tree), symbolic path walker over "
                                     "polynomial terms, predicate regions, constant folder, abstract evaluation on the empty batch, "
                                     "bit-width abstract interpretation; pure stdlib, never imports /repo"}],
      "checks": checks,
      "not_applicable": na,
      "notes": "Static analysis only. Exit 0 held / 1 VIOLATION / 2 ANALYSIS-INCOMPLETE (never with a VIOLATION line). "
               "Known findings: /verif/known_findings.json. Sensitivity self-test: /venv/bin/python /verif/selftest/run.py.",
  }
  with open(os.path.join(HERE, "MANIFEST.json"), "w") as f:
    json.dump(man, f, indent=1)
  print("MANIFEST.json: %d checks, %d not_applicable" % (len(checks), len(na)))


if __name__ == "__main__":
  main()
