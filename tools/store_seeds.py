#!/venv/bin/python
"""Stores a round of sub-agent seeds under /verif/seeded/<id>-r<round><a|b>/ after re-running every quick check against the changed tree.

usage: store_seeds.py <round> <src_root> [--first-pass-glob /tmp/ev8_%s.out]
<src_root>/CxxA, CxxB hold patch.diff, demo.py, meta.json; the first-pass output of tools/seed_eval.sh (demo / suite confirmation and which checks
fired before strengthening) is read from the glob.  A scratch worktree outside /repo and /verif is used and removed."""
import json, os, re, shutil, subprocess, sys

VERIF = os.path.dirname(os.path.dirname(os.path.abspath(__file__)))
PROPS = "C01 C02 C03 C04 C05 C06 C07 C08 C09 C10 C11 C12 C13 C14 C16 C17 C18 C19 C20".split()


def run_checks(wt):
  out = {}
  for p in PROPS:
    env = dict(os.environ, PCSTATIC_EVIDENCE_DIR=wt + "/_ev")
    r = subprocess.run(["/venv/bin/python", os.path.join(VERIF, "check.py"), p, "--repo", wt], capture_output=True, text=True, env=env)
    lines = [l.strip() for l in r.stdout.splitlines() if l.startswith(("  violated", "ANALYSIS"))]
    out[p] = (r.returncode, lines)
  return out


def main():
  rnd, src = sys.argv[1], sys.argv[2]
  glob_ = "/tmp/ev%s_%%s.out" % rnd
  if "--first-pass-glob" in sys.argv:
    glob_ = sys.argv[sys.argv.index("--first-pass-glob") + 1]
  for d in sorted(os.listdir(src)):
    m = re.fullmatch(r"(C\d\d)([AB])", d)
    if not m or not os.path.exists(os.path.join(src, d, "patch.diff")):
      continue
    pid, ab = m.group(1), m.group(2).lower()
    dst = os.path.join(VERIF, "seeded", "%s-r%s%s" % (pid, rnd, ab))
    os.makedirs(dst, exist_ok=True)
    for fn in ("patch.diff", "demo.py", "meta.json"):
      shutil.copy(os.path.join(src, d, fn), os.path.join(dst, fn))
    first = open(glob_ % d).read() if os.path.exists(glob_ % d) else ""
    fm = re.search(r"demo: clean exit=(\d+) changed exit=(\d+)", first)
    sm = re.search(r"suite: (.*)", first)
    first_fired = re.findall(r"^  (C\d\d) exit=(\d)", first, re.M)
    own_first = any(p == pid and e == "1" for p, e in first_fired)
    wt = "/tmp/st_%s" % d
    subprocess.run(["git", "-C", "/repo", "worktree", "remove", "--force", wt], capture_output=True)
    shutil.rmtree(wt, ignore_errors=True)
    subprocess.run(["git", "-C", "/repo", "worktree", "add", "-q", wt, "HEAD"], check=True)
    try:
      subprocess.run(["git", "-C", wt, "apply", os.path.join(dst, "patch.diff")], check=True)
      res = run_checks(wt)
    finally:
      subprocess.run(["git", "-C", "/repo", "worktree", "remove", "--force", wt], capture_output=True)
      shutil.rmtree(wt, ignore_errors=True)
    fired = [p for p, (rc, _) in res.items() if rc == 1]
    undec = [p for p, (rc, _) in res.items() if rc == 2]
    own_now = pid in fired
    meta = json.load(open(os.path.join(dst, "meta.json")))
    meta["round"] = int(rnd)
    meta["origin"] = ("written by an independent sub-agent that was given only the property text, a hint to look below the obvious sites (helpers, defaults, secondary loops, "
                      "shared state, conversions, error paths) and a scratch worktree (nothing from /verif); two changes per agent (a/b)")
    meta["confirmed_by_main"] = {"how": "tools/seed_eval.sh: fresh worktree of /repo HEAD outside /repo and /verif; demo.py on the clean tree; git apply patch.diff; demo.py again; "
                                        "pytest baseline command; every quick check with --repo <worktree>; worktree removed",
                                 "demo_clean_exit": int(fm.group(1)) if fm else None, "demo_changed_exit": int(fm.group(2)) if fm else None,
                                 "suite_after_change": sm.group(1).strip() if sm else None}
    status = ("caught by %s on arrival" % pid) if own_first else (("missed by %s at first (%s); caught by %s after strengthening" % (
        pid, "fired elsewhere: " + ", ".join(p for p, e in first_fired if e == "1") if any(e == "1" for _, e in first_fired) else "no check fired", pid)) if own_now else
        ("NOT detected by %s (fires: %s)" % (pid, ", ".join(fired) or "none")))
    meta["detection"] = {"status": status, "rules": [l[:260] for l in res.get(pid, (0, []))[1]][:6], "checks_exiting_1_on_the_changed_tree": fired,
                         "checks_exiting_2_on_the_changed_tree": undec}
    json.dump(meta, open(os.path.join(dst, "meta.json"), "w"), indent=1)
    print("%s-r%s%s  own_first=%s own_now=%s fired=%s undecided=%s" % (pid, rnd, ab, own_first, own_now, ",".join(fired), ",".join(undec)))


if __name__ == "__main__":
  main()
