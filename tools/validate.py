#!/usr/bin/env python3
"""Validates MANIFEST.json and evidence/*.json against the harness schemas (run with python3-vt)."""
import json, sys, glob, os
import jsonschema
V = os.path.dirname(os.path.dirname(os.path.abspath(__file__)))
ms = json.load(open("/root/.vp/MANIFEST.schema.json")); es = json.load(open("/root/.vp/EVIDENCE.schema.json"))
jsonschema.validate(json.load(open(V + "/MANIFEST.json")), ms)
print("manifest ok")
for f in sorted(glob.glob(V + "/evidence/*.json")):
    jsonschema.validate(json.load(open(f)), es); print("ok", os.path.basename(f))
