#!/usr/bin/env python3
"""Validates MANIFEST.json and evidence/*.json against the harness schemas (run with python3-vt), and that every committed evidence file is the record of a
run on the clean tree: no violation outside the known findings, obligations all discharged (a file written while a seeded change was applied to /repo must
not be committed)."""
import json, sys, glob, os
import jsonschema
V = os.path.dirname(os.path.dirname(os.path.abspath(__file__)))
ms = json.load(open("/root/.vp/MANIFEST.schema.json")); es = json.load(open("/root/.vp/EVIDENCE.schema.json"))
jsonschema.validate(json.load(open(V + "/MANIFEST.json")), ms)
print("manifest ok")
bad = 0
for f in sorted(glob.glob(V + "/evidence/*.json")):
    d = json.load(open(f))
    jsonschema.validate(d, es)
    cov = d.get("coverage", {})
    if cov.get("obligations") != cov.get("discharged") or d.get("violations", 0) != len(cov.get("known_findings_printed", [])) and d.get("violations", 0) != 0 and not cov.get("known_findings_printed"):
        print("STALE", os.path.basename(f), "obligations", cov.get("obligations"), "discharged", cov.get("discharged"), "violations", d.get("violations"))
        bad += 1
    else:
        print("ok", os.path.basename(f))
sys.exit(1 if bad else 0)
