#!/venv/bin/python
"""Systematic mutation fuzz (development aid, not a registered check): applies one small syntactic mutation at a time to the library source in a scratch
copy and runs every rule module on it in-process.  Mutants that no check reports (exit 0 everywhere) are listed per function: each is either an
equivalent / out-of-scope mutant or a coverage gap to look at.

usage: mutfuzz.py [--files rsa_util.py,ec_util.py] [--jobs N] [--max-per-func K] [--out FILE] [--seed S]"""
import ast, argparse, copy, json, os, random, shutil, sys, tempfile, multiprocessing as mp, importlib, io, contextlib, time

VERIF = os.path.dirname(os.path.dirname(os.path.abspath(__file__)))
sys.path.insert(0, VERIF)
REPO = os.environ.get("PCSTATIC_REPO", "/repo")
PROPS = "C01 C02 C03 C04 C05 C06 C07 C08 C09 C10 C11 C12 C13 C14 C16 C17 C18 C19 C20".split()
LIB = "paranoid_crypto/lib"

CMP_SWAP = {ast.Lt: ast.LtE, ast.LtE: ast.Lt, ast.Gt: ast.GtE, ast.GtE: ast.Gt, ast.Eq: ast.NotEq, ast.NotEq: ast.Eq, ast.Is: ast.IsNot, ast.IsNot: ast.Is, ast.In: ast.NotIn, ast.NotIn: ast.In}
BIN_SWAP = {ast.Add: ast.Sub, ast.Sub: ast.Add, ast.Mult: ast.FloorDiv, ast.FloorDiv: ast.Mult, ast.LShift: ast.RShift, ast.RShift: ast.LShift, ast.BitAnd: ast.BitOr,
            ast.BitOr: ast.BitAnd, ast.Mod: ast.FloorDiv}


def sites(tree):
  """[(kind, node path index, description)] of mutable sites, each tagged with the enclosing function."""
  out = []
  funcs = []
  for n in ast.walk(tree):
    if isinstance(n, (ast.FunctionDef, ast.AsyncFunctionDef)):
      funcs.append(n)

  def owner(node):
    best = None
    for f in funcs:
      if f.lineno <= getattr(node, "lineno", -1) <= (f.end_lineno or f.lineno):
        if best is None or f.lineno >= best.lineno:
          best = f
    return best.name if best is not None else "<module>"
  idx = 0
  for n in ast.walk(tree):
    n._mid = idx
    idx += 1
  for n in ast.walk(tree):
    if isinstance(n, ast.Compare) and len(n.ops) == 1 and type(n.ops[0]) in CMP_SWAP:
      out.append(("cmp", n._mid, owner(n), n.lineno))
    elif isinstance(n, ast.BinOp) and type(n.op) in BIN_SWAP and not (isinstance(n.left, ast.Constant) and isinstance(n.left.value, str)):
      out.append(("bin", n._mid, owner(n), n.lineno))
    elif isinstance(n, ast.BoolOp):
      out.append(("bool", n._mid, owner(n), n.lineno))
    elif isinstance(n, ast.UnaryOp) and isinstance(n.op, ast.Not):
      out.append(("not", n._mid, owner(n), n.lineno))
    elif isinstance(n, ast.Constant) and isinstance(n.value, int) and not isinstance(n.value, bool) and abs(n.value) < 2 ** 16 and hasattr(n, "lineno"):
      out.append(("const+", n._mid, owner(n), n.lineno))
      if n.value != 0:
        out.append(("const-", n._mid, owner(n), n.lineno))
    elif isinstance(n, (ast.Break, ast.Continue)):
      out.append(("brk", n._mid, owner(n), n.lineno))
    elif isinstance(n, (ast.Assign, ast.AugAssign)) or (isinstance(n, ast.Expr) and isinstance(n.value, ast.Call)):
      if owner(n) != "<module>":
        out.append(("del", n._mid, owner(n), n.lineno))
    elif isinstance(n, ast.If) and owner(n) != "<module>":
      out.append(("iftrue", n._mid, owner(n), n.lineno))
  return out


def mutate(src, kind, mid):
  tree = ast.parse(src)
  idx = 0
  target = None
  parents = {}
  for n in ast.walk(tree):
    for ch in ast.iter_child_nodes(n):
      parents[id(ch)] = n
  for n in ast.walk(tree):
    if idx == mid:
      target = n
    idx += 1
  if target is None:
    return None, None
  before = ast.unparse(target)[:80]
  if kind == "cmp":
    target.ops = [CMP_SWAP[type(target.ops[0])]()]
  elif kind == "bin":
    target.op = BIN_SWAP[type(target.op)]()
  elif kind == "bool":
    target.op = ast.Or() if isinstance(target.op, ast.And) else ast.And()
  elif kind == "not":
    par = parents.get(id(target))
    repl = target.operand
    for f_, v in ast.iter_fields(par):
      if v is target:
        setattr(par, f_, repl)
      elif isinstance(v, list) and target in v:
        v[v.index(target)] = repl
    return ast.unparse(tree), "%s -> %s" % (before, ast.unparse(repl)[:80])
  elif kind == "const+":
    target.value = target.value + 1
  elif kind == "const-":
    target.value = target.value - 1
  elif kind == "brk":
    par = parents.get(id(target))
    repl = ast.Continue() if isinstance(target, ast.Break) else ast.Break()
    for f_, v in ast.iter_fields(par):
      if isinstance(v, list) and target in v:
        v[v.index(target)] = repl
    return ast.unparse(ast.fix_missing_locations(tree)), "%s -> %s" % (before, ast.unparse(repl))
  elif kind == "del":
    par = parents.get(id(target))
    for f_, v in ast.iter_fields(par):
      if isinstance(v, list) and target in v:
        v[v.index(target)] = ast.Pass()
    return ast.unparse(ast.fix_missing_locations(tree)), "%s -> pass" % before
  elif kind == "iftrue":
    cond = ast.unparse(target.test)[:70]
    target.test = ast.Constant(value=True)
    return ast.unparse(ast.fix_missing_locations(tree)), "if %s -> if True" % cond
  return ast.unparse(ast.fix_missing_locations(tree)), "%s -> %s" % (before, ast.unparse(target)[:80])


_WORK = None


def _init_worker():
  global _WORK
  global BASE
  _WORK = tempfile.mkdtemp(prefix="mutfz_")
  shutil.copytree(os.path.join(REPO, "paranoid_crypto"), os.path.join(_WORK, "paranoid_crypto"), ignore=shutil.ignore_patterns("__pycache__", "*.pyc", "*.lzma", "*.so"))
  for extra in ("README.md", "docs", "examples", "setup.py"):
    s = os.path.join(REPO, extra)
    if os.path.isdir(s):
      shutil.copytree(s, os.path.join(_WORK, extra))
    elif os.path.exists(s):
      shutil.copy(s, os.path.join(_WORK, extra))
  BASE = run_all(_WORK)


def run_all(root):
  """{prop: (set of violation keys, undecided?)} by running every rule module in-process."""
  from pcstatic import core, loader
  res = {}
  try:
    repo = loader.Repo(root)
  except Exception as e:
    return {"LOAD": (set(), True)}
  for p in PROPS:
    m = importlib.import_module("rules." + p.lower())
    ctx = core.Ctx(p, "quick", repo)
    und = False
    try:
      with contextlib.redirect_stdout(io.StringIO()):
        m.run(ctx)
    except Exception as e:
      und = True
    viol = set()
    for r in ctx.results:
      if r.status == "violation":
        viol.add((r.rule, r.where, r.construct))
      elif r.status == "incomplete":
        und = True
    for rule, (n, reason) in ctx.min_counts.items():
      if sum(1 for r in ctx.results if r.rule == rule) < n:
        und = True
    res[p] = (viol, und)
  return res


BASE = None


def work(job):
  rel, kind, mid, fn, line = job
  path = os.path.join(_WORK, rel)
  orig = open(os.path.join(REPO, rel)).read()
  try:
    new, desc = mutate(orig, kind, mid)
  except Exception as e:
    return job, None, "mutate failed: %s" % e
  if new is None:
    return job, None, "no target"
  try:
    compile(new, rel, "exec")
  except SyntaxError:
    return job, None, "syntax"
  open(path, "w").write(new)
  try:
    res = run_all(_WORK)
  finally:
    open(path, "w").write(orig)
  out = {}
  for p_, (viol, und) in res.items():
    base_v, base_u = BASE.get(p_, (set(), False))
    # violations of the mutated tree that the clean tree does not have (rule + where; the construct text may quote the mutated line)
    newv = {(r, w_) for r, w_, c in viol} - {(r, w_) for r, w_, c in base_v}
    more = len(viol) > len(base_v)
    out[p_] = ("new" if newv or more else "same", und and not base_u)
  return job, out, desc


def main():
  ap = argparse.ArgumentParser()
  ap.add_argument("--files", default=None)
  ap.add_argument("--jobs", type=int, default=14)
  ap.add_argument("--max-per-func", type=int, default=6)
  ap.add_argument("--out", default="/tmp/mutfuzz.json")
  ap.add_argument("--seed", type=int, default=1)
  ap.add_argument("--funcs", default=None, help="comma-separated function names (substring match)")
  a = ap.parse_args()
  rnd = random.Random(a.seed)
  files = []
  for root, _, fs in os.walk(os.path.join(REPO, LIB)):
    for f in fs:
      if f.endswith(".py") and not f.endswith("_test.py") and "/data" not in root and f not in ("lcg_constants.py", "exp1.py", "__init__.py"):
        files.append(os.path.relpath(os.path.join(root, f), REPO))
  if a.files:
    want = a.files.split(",")
    files = [f for f in files if any(f.endswith(w) for w in want)]
  jobs = []
  for rel in sorted(files):
    src = open(os.path.join(REPO, rel)).read()
    # mutate the normalised (unparsed) source so that node indices are stable between enumeration and mutation
    st = sites(ast.parse(src))
    byf = {}
    for kind, mid, fn, line in st:
      byf.setdefault(fn, []).append((kind, mid, fn, line))
    for fn, lst in byf.items():
      if fn == "<module>":
        continue
      if a.funcs and not any(x in fn for x in a.funcs.split(",")):
        continue
      rnd.shuffle(lst)
      for kind, mid, fn_, line in lst[:a.max_per_func]:
        jobs.append((rel, kind, mid, fn_, line))
  print("%d mutants over %d files" % (len(jobs), len(files)), flush=True)
  t0 = time.time()
  out = []
  with mp.Pool(a.jobs, initializer=_init_worker) as pool:
    for i, (job, res, desc) in enumerate(pool.imap_unordered(work, jobs)):
      if res is None:
        continue
      rel, kind, mid, fn, line = job
      caught = [p for p, s_ in res.items() if s_[0] == "new"]
      undec = [p for p, s_ in res.items() if s_[0] != "new" and s_[1]]
      out.append({"file": rel, "func": fn, "line": line, "kind": kind, "desc": desc, "caught": caught, "undecided": undec})
      if (i + 1) % 100 == 0:
        print("  %d/%d  (%.0fs)" % (i + 1, len(jobs), time.time() - t0), flush=True)
  json.dump(out, open(a.out, "w"), indent=0)
  surv = [o for o in out if not o["caught"] and not o["undecided"]]
  print("%d mutants run, %d caught, %d undecided only, %d survived" % (len(out), sum(1 for o in out if o["caught"]), sum(1 for o in out if not o["caught"] and o["undecided"]), len(surv)))
  byf = {}
  for o in surv:
    byf.setdefault((o["file"].split("/")[-1], o["func"]), []).append(o)
  for (f, fn), lst in sorted(byf.items(), key=lambda kv: -len(kv[1])):
    print("%-28s %-36s %d" % (f, fn, len(lst)))
    for o in lst[:8]:
      print("      L%-4d %-7s %s" % (o["line"], o["kind"], o["desc"][:110]))


if __name__ == "__main__":
  main()
