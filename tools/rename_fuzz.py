#!/venv/bin/python
"""Behaviour-preserving rename fuzz: renames every local variable of every function of the library (in place in a scratch copy, exact
source positions, formatting untouched) and runs the quick checks.  A check that fires on the renamed tree depends on a local name.

usage: rename_fuzz.py [--only module[:function]] [--jobs N] [--keep DIR] [--per-function]
The scratch copy lives under /tmp and is removed afterwards (unless --keep)."""
import ast, builtins, os, shutil, subprocess, sys, tempfile, argparse, json
from concurrent.futures import ThreadPoolExecutor

VERIF = os.path.dirname(os.path.dirname(os.path.abspath(__file__)))
REPO = os.environ.get("PCSTATIC_REPO", "/repo")
PROPS = "C01 C02 C03 C04 C05 C06 C07 C08 C09 C10 C11 C12 C13 C14 C16 C17 C18 C19 C20".split()
# functions whose statements are quoted in known_findings.json (the finding is identified by its construct text)
SKIP_FUNCS = {("randomness_tests/rng.py", "TruncLcgRand.RandomBits")}


def unit_renames(fn, module_names):
  """{old: new} for the local variables of one top-level function / method (nested functions and comprehensions included)."""
  params, stores, declared = set(), set(), set()
  for n in ast.walk(fn):
    if isinstance(n, (ast.FunctionDef, ast.AsyncFunctionDef, ast.Lambda)):
      a = n.args
      for x in a.posonlyargs + a.args + a.kwonlyargs + ([a.vararg] if a.vararg else []) + ([a.kwarg] if a.kwarg else []):
        params.add(x.arg)
      if n is not fn and not isinstance(n, ast.Lambda):
        declared.add(n.name)          # nested def names stay (they are not Name nodes at the def site)
    elif isinstance(n, (ast.Global, ast.Nonlocal)):
      declared.update(n.names)
    elif isinstance(n, ast.Name) and isinstance(n.ctx, (ast.Store, ast.Del)):
      stores.add(n.id)
    elif isinstance(n, ast.ExceptHandler) and n.name:
      declared.add(n.name)
    elif isinstance(n, (ast.Import, ast.ImportFrom)):
      for al in n.names:
        declared.add((al.asname or al.name).split(".")[0])
  names = stores - params - declared - module_names - set(dir(builtins))
  names = {x for x in names if not x.startswith("__")}
  return {x: x + "_rn" for x in names if x + "_rn" not in stores | params}


def rename_file(path, only_func=None, skip=()):
  src = open(path).read()
  tree = ast.parse(src)
  module_names = set()
  for n in tree.body:
    if isinstance(n, (ast.Assign, ast.AnnAssign, ast.AugAssign)):
      for t in ast.walk(n):
        if isinstance(t, ast.Name) and isinstance(t.ctx, ast.Store):
          module_names.add(t.id)
    elif isinstance(n, (ast.FunctionDef, ast.ClassDef)):
      module_names.add(n.name)
    elif isinstance(n, (ast.Import, ast.ImportFrom)):
      for al in n.names:
        module_names.add((al.asname or al.name).split(".")[0])
  units = []
  for n in tree.body:
    if isinstance(n, ast.FunctionDef):
      units.append((n.name, n))
    elif isinstance(n, ast.ClassDef):
      for m in n.body:
        if isinstance(m, ast.FunctionDef):
          units.append((n.name + "." + m.name, m))
  edits = []
  done = []
  for qual, fn in units:
    if only_func and qual != only_func:
      continue
    if qual in skip:
      continue
    mp = unit_renames(fn, module_names)
    if not mp:
      continue
    cnt = 0
    for n in ast.walk(fn):
      if isinstance(n, ast.Name) and n.id in mp and n.end_lineno == n.lineno:
        edits.append((n.lineno, n.col_offset, n.end_col_offset, mp[n.id]))
        cnt += 1
    if cnt:
      done.append((qual, len(mp)))
  if not edits:
    return []
  lines = src.split("\n")
  # col offsets are utf-8 byte offsets
  for ln, c0, c1, new in sorted(set(edits), reverse=True):
    b = lines[ln - 1].encode("utf-8")
    lines[ln - 1] = (b[:c0] + new.encode() + b[c1:]).decode("utf-8")
  out = "\n".join(lines)
  compile(out, path, "exec")
  open(path, "w").write(out)
  return done


def run_checks(repo, jobs, props=PROPS):
  def one(p):
    env = dict(os.environ, PCSTATIC_EVIDENCE_DIR=os.path.join(repo, "_ev_" + p))
    r = subprocess.run(["/venv/bin/python", os.path.join(VERIF, "check.py"), p, "--repo", repo], capture_output=True, text=True, env=env, timeout=900)
    bad = [l for l in r.stdout.splitlines() if l.startswith(("  violated", "ANALYSIS"))]
    return p, r.returncode, bad
  with ThreadPoolExecutor(jobs) as ex:
    return list(ex.map(one, props))


def main():
  ap = argparse.ArgumentParser()
  ap.add_argument("--only", default=None)
  ap.add_argument("--jobs", type=int, default=8)
  ap.add_argument("--keep", default=None)
  ap.add_argument("--per-module", action="store_true", help="one scratch copy per module (localises an alarm)")
  ap.add_argument("--props", default=None)
  a = ap.parse_args()
  props = a.props.split(",") if a.props else PROPS
  lib = "paranoid_crypto/lib"
  files = []
  for root, _, fs in os.walk(os.path.join(REPO, lib)):
    for f in fs:
      if f.endswith(".py") and not f.endswith("_test.py") and "/data" not in root:
        files.append(os.path.relpath(os.path.join(root, f), REPO))
  files.sort()
  only_mod = only_fn = None
  if a.only:
    only_mod, _, only_fn = a.only.partition(":")
    files = [f for f in files if f.endswith(only_mod) or f.endswith(only_mod + ".py")]
  groups = [[f] for f in files] if a.per_module else [files]
  rc = 0
  for grp in groups:
    tmp = a.keep or tempfile.mkdtemp(prefix="rnfz_")
    try:
      if os.path.exists(tmp):
        shutil.rmtree(tmp)
      shutil.copytree(REPO, tmp, ignore=shutil.ignore_patterns(".git", "__pycache__", "*.pyc", "build", "*.egg-info"))
      total = 0
      for f in grp:
        skip = {q for (ff, q) in SKIP_FUNCS if f.endswith(ff)}
        done = rename_file(os.path.join(tmp, f), only_fn or None, skip)
        total += sum(k for _, k in done)
      res = run_checks(tmp, a.jobs, props)
      alarms = [(p, c, bad) for p, c, bad in res if c != 0]
      label = grp[0] if len(grp) == 1 else "%d files" % len(grp)
      print("%s: %d names renamed, %d checks with alarms" % (label, total, len(alarms)))
      for p, c, bad in alarms:
        rc = 1
        for l in bad[:6]:
          print("   %s exit=%d %s" % (p, c, l.strip()[:260]))
    finally:
      if not a.keep:
        shutil.rmtree(tmp, ignore_errors=True)
  return rc


if __name__ == "__main__":
  sys.exit(main())
