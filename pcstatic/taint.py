"""Raw-coordinate taint over the methods of one class (flow-insensitive, interprocedural by worklist).

A value is *raw* when it may carry an artifact's coordinates that were never reduced modulo the field prime.  Sources are given by the
caller (argument positions of methods called from Check bodies); `e % <modulus>` is canonical again; arithmetic helpers return canonical
values unless they hand a parameter back unchanged (detected from their return statements)."""
from __future__ import annotations
import ast

WRAPPERS = {"enumerate", "zip", "list", "tuple", "sorted", "reversed", "iter", "set"}


def is_modulus(e, mod_names):
  if isinstance(e, ast.Attribute) and isinstance(e.value, ast.Name) and e.value.id == "self" and e.attr in ("mod",):
    return True
  return isinstance(e, ast.Name) and e.id in mod_names


class ClassTaint:
  def __init__(self, cls):
    self.cls = cls                     # loader.Cls
    self.methods = {k: v for k, v in cls.methods.items()}
    self.tainted = {}                  # method -> set(param names)
    self.local = {}                    # method -> set(local tainted names)
    self.passthrough = {m: self._passthrough(f.node) for m, f in self.methods.items()}
    self.reasons = {}                  # (method, param) -> text

  @staticmethod
  def _params(fnode):
    return [a.arg for a in fnode.args.posonlyargs + fnode.args.args if a.arg != "self"]

  def _passthrough(self, fnode):
    """Does some return hand back a parameter (or a tuple holding unreduced parameter coordinates)?"""
    ps = set(self._params(fnode))
    for n in ast.walk(fnode):
      if isinstance(n, ast.Return) and n.value is not None:
        v = n.value
        if isinstance(v, ast.Name) and v.id in ps:
          return True
        if isinstance(v, ast.Tuple):
          for el in v.elts:
            if isinstance(el, ast.Name) and not self._always_reduced(fnode, el.id):
              # a local unpacked from a parameter and returned unreduced (Negate: (x, -y % mod))
              return True
    return False

  @staticmethod
  def _always_reduced(fnode, name):
    """Every binding of the local is `... % <modulus>`."""
    mods = {"mod"}
    n_bind = 0
    for n in ast.walk(fnode):
      if isinstance(n, ast.Assign) and any(isinstance(t, ast.Name) and t.id == name for t in n.targets):
        n_bind += 1
        v = n.value
        if not (isinstance(v, ast.BinOp) and isinstance(v.op, ast.Mod) and is_modulus(v.right, mods)):
          return False
      elif isinstance(n, ast.Assign) and any(name in {x.id for x in ast.walk(t) if isinstance(x, ast.Name)} for t in n.targets):
        return False
    return n_bind > 0

  # ---- expression taint
  def expr(self, e, T, mod_names):
    if e is None:
      return False
    if isinstance(e, ast.Name):
      return e.id in T
    if isinstance(e, ast.Constant):
      return False
    if isinstance(e, ast.BinOp):
      if isinstance(e.op, ast.Mod) and is_modulus(e.right, mod_names):
        return False
      return self.expr(e.left, T, mod_names) or self.expr(e.right, T, mod_names)
    if isinstance(e, ast.UnaryOp):
      return self.expr(e.operand, T, mod_names)
    if isinstance(e, (ast.Subscript, ast.Starred)):
      return self.expr(e.value, T, mod_names)
    if isinstance(e, ast.Attribute):
      return False
    if isinstance(e, (ast.Tuple, ast.List, ast.Set)):
      return any(self.expr(x, T, mod_names) for x in e.elts)
    if isinstance(e, ast.IfExp):
      return self.expr(e.body, T, mod_names) or self.expr(e.orelse, T, mod_names)
    if isinstance(e, (ast.ListComp, ast.GeneratorExp, ast.SetComp)):
      T2 = set(T)
      for g in e.generators:
        if self.expr(g.iter, T2, mod_names):
          for n in ast.walk(g.target):
            if isinstance(n, ast.Name):
              T2.add(n.id)
      return self.expr(e.elt, T2, mod_names)
    if isinstance(e, ast.Call):
      f = e.func
      if isinstance(f, ast.Name) and f.id in WRAPPERS:
        return any(self.expr(a, T, mod_names) for a in e.args)
      if isinstance(f, ast.Attribute) and isinstance(f.value, ast.Name) and f.value.id == "self" and f.attr in self.methods:
        if self.passthrough.get(f.attr):
          return any(self.expr(a, T, mod_names) for a in e.args)
        return False
      return False
    return False

  def analyse(self, m):
    f = self.methods[m]
    T = set(self.tainted.get(m, ()))
    mod_names = set()
    calls = []
    for _ in range(6):
      before = len(T)
      for n in ast.walk(f.node):
        if isinstance(n, ast.Assign):
          if len(n.targets) == 1 and isinstance(n.targets[0], ast.Name) and is_modulus(n.value, mod_names):
            mod_names.add(n.targets[0].id)
          if self.expr(n.value, T, mod_names):
            for t in n.targets:
              for x in ast.walk(t):
                if isinstance(x, ast.Name) and not (isinstance(t, ast.Subscript) and x is not root(t)):
                  T.add(x.id)
        elif isinstance(n, ast.AugAssign):
          if self.expr(n.value, T, mod_names):
            r = root(n.target)
            if r is not None:
              T.add(r.id)
        elif isinstance(n, (ast.For, ast.comprehension)):
          if self.expr(n.iter, T, mod_names):
            for x in ast.walk(n.target):
              if isinstance(x, ast.Name):
                T.add(x.id)
      if len(T) == before:
        break
    for n in ast.walk(f.node):
      if isinstance(n, ast.Call) and isinstance(n.func, ast.Attribute) and isinstance(n.func.value, ast.Name) and n.func.value.id == "self" \
         and n.func.attr in self.methods:
        ps = self._params(self.methods[n.func.attr].node)
        # comprehension-bound names count too
        hit = [ps[i] for i, a in enumerate(n.args) if i < len(ps) and self.expr_in_context(a, n, f.node, T, mod_names)]
        if hit:
          calls.append((n.func.attr, hit, n.lineno))
    self.local[m] = T
    return calls

  def expr_in_context(self, a, call, fnode, T, mod_names):
    if self.expr(a, T, mod_names):
      return True
    # names bound by an enclosing comprehension over a tainted iterable
    for comp in ast.walk(fnode):
      if isinstance(comp, (ast.ListComp, ast.GeneratorExp, ast.SetComp)) and any(x is call for x in ast.walk(comp)):
        T2 = set(T)
        for g in comp.generators:
          if self.expr(g.iter, T2, mod_names):
            for n in ast.walk(g.target):
              if isinstance(n, ast.Name):
                T2.add(n.id)
        if self.expr(a, T2, mod_names):
          return True
    return False

  def run(self, seeds):
    """seeds: [(method, param name, reason)]"""
    work = []
    for m, p, why in seeds:
      if m in self.methods and p not in self.tainted.setdefault(m, set()):
        self.tainted[m].add(p)
        self.reasons[(m, p)] = why
        work.append(m)
    while work:
      m = work.pop()
      for callee, ps, line in self.analyse(m):
        for p in ps:
          if p not in self.tainted.setdefault(callee, set()):
            self.tainted[callee].add(p)
            self.reasons[(callee, p)] = "%s (line %d)" % (m, line)
            work.append(callee)
    for m in list(self.tainted):
      self.analyse(m)
    return self.tainted

  def chain(self, m, p, limit=8):
    out = []
    seen = set()
    while (m, p) in self.reasons and (m, p) not in seen and len(out) < limit:
      seen.add((m, p))
      why = self.reasons[(m, p)]
      out.append("%s(%s) <- %s" % (m, p, why))
      m2 = why.split(" ")[0]
      if m2 not in self.tainted:
        break
      # pick any tainted param of the caller that has a reason
      nxt = [q for q in self.tainted[m2] if (m2, q) in self.reasons]
      if not nxt:
        break
      m, p = m2, nxt[0]
    return out


def root(t):
  while isinstance(t, (ast.Subscript, ast.Attribute, ast.Starred)):
    t = t.value
  return t if isinstance(t, ast.Name) else None
