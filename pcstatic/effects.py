"""Effect scan: writes of a function that outlive the call (module-level containers / attributes, globals, mutable default arguments)."""
from __future__ import annotations
import ast

MUTATORS = {"append", "add", "update", "extend", "insert", "pop", "remove", "sort", "clear", "setdefault", "popitem", "discard", "reverse",
            "appendleft", "popleft", "__setitem__", "__delitem__"}
PURE_DECORATORS = {"functools.lru_cache", "functools.cache", "lru_cache", "cache", "staticmethod", "classmethod", "property"}


def local_names(fnode):
  """Names bound inside the function (params, assignments, loop/with/except/comprehension targets, imports), minus declared globals."""
  loc, glob = set(), set()
  a = fnode.args
  for x in a.posonlyargs + a.args + a.kwonlyargs:
    loc.add(x.arg)
  if a.vararg:
    loc.add(a.vararg.arg)
  if a.kwarg:
    loc.add(a.kwarg.arg)
  for n in walk_own(fnode):
    if isinstance(n, ast.Name) and isinstance(n.ctx, (ast.Store, ast.Del)):
      loc.add(n.id)
    elif isinstance(n, (ast.Global, ast.Nonlocal)):
      glob.update(n.names)
    elif isinstance(n, (ast.Import, ast.ImportFrom)):
      for al in n.names:
        loc.add((al.asname or al.name).split(".")[0])
    elif isinstance(n, ast.ExceptHandler) and n.name:
      loc.add(n.name)
  return loc - glob, glob


def walk_own(fnode):
  """ast.walk that does not descend into nested function / class definitions (comprehensions and lambdas are descended)."""
  todo = list(ast.iter_child_nodes(fnode))
  while todo:
    n = todo.pop()
    yield n
    if isinstance(n, (ast.FunctionDef, ast.AsyncFunctionDef, ast.ClassDef)):
      continue
    todo.extend(ast.iter_child_nodes(n))


def root_name(e):
  while isinstance(e, (ast.Attribute, ast.Subscript)):
    e = e.value
  return e.id if isinstance(e, ast.Name) else None


def mutable_default_params(fnode):
  out = set()
  a = fnode.args
  pos = a.posonlyargs + a.args
  for p, d in zip(pos[len(pos) - len(a.defaults):], a.defaults):
    if isinstance(d, (ast.Dict, ast.List, ast.Set, ast.DictComp, ast.ListComp, ast.SetComp)) or \
       (isinstance(d, ast.Call) and isinstance(d.func, ast.Name) and d.func.id in ("dict", "list", "set", "bytearray", "defaultdict")):
      out.add(p.arg)
  for p, d in zip(a.kwonlyargs, a.kw_defaults):
    if d is not None and isinstance(d, (ast.Dict, ast.List, ast.Set)):
      out.add(p.arg)
  return out


def module_vars(tree):
  out = set()
  for st in tree.body:
    if isinstance(st, ast.Assign):
      for t in st.targets:
        for el in (t.elts if isinstance(t, (ast.Tuple, ast.List)) else [t]):
          if isinstance(el, ast.Name):
            out.add(el.id)
    elif isinstance(st, (ast.AnnAssign, ast.AugAssign)) and isinstance(st.target, ast.Name):
      out.add(st.target.id)
  return out


def persistent_writes(fnode, modvars=()):
  """[(node, text)] for every write whose target survives the call.  modvars: names bound at module level (alias sources)."""
  loc, glob = local_names(fnode)
  mdef = mutable_default_params(fnode)
  out = []
  for g in sorted(glob):
    out.append((fnode, "declares `global %s`" % g))
  # local aliases of module-level objects: x = TABLE / x = TABLE[k] / x = TABLE.attr
  alias = set()
  for _ in range(3):
    for n in walk_own(fnode):
      if isinstance(n, ast.Assign) and len(n.targets) == 1 and isinstance(n.targets[0], ast.Name) and isinstance(n.value, (ast.Name, ast.Attribute, ast.Subscript)):
        r = root_name(n.value)
        if r is not None and ((r in modvars and r not in loc) or r in alias or r in mdef):
          alias.add(n.targets[0].id)
  mdef = mdef | alias

  def persistent(root):
    return root is not None and (root not in loc or root in mdef)

  for n in walk_own(fnode):
    targets = []
    if isinstance(n, ast.Assign):
      targets = n.targets
    elif isinstance(n, (ast.AugAssign, ast.AnnAssign)):
      targets = [n.target]
    elif isinstance(n, ast.Delete):
      targets = n.targets
    for t in targets:
      for el in (t.elts if isinstance(t, (ast.Tuple, ast.List)) else [t]):
        if isinstance(el, (ast.Subscript, ast.Attribute)):
          r = root_name(el)
          if persistent(r) and r != "self":
            out.append((n, "writes %s, which is not local to the call" % ast.unparse(el)))
    if isinstance(n, ast.Call) and isinstance(n.func, ast.Attribute) and n.func.attr in MUTATORS:
      r = root_name(n.func.value)
      if persistent(r) and r != "self" and not isinstance(n.func.value, ast.Call):
        out.append((n, "mutates %s with .%s(), which is not local to the call" % (ast.unparse(n.func.value), n.func.attr)))
  return out


def impure_decorators(fnode):
  bad = []
  for d in fnode.decorator_list:
    x = d.func if isinstance(d, ast.Call) else d
    name = ast.unparse(x)
    if name not in PURE_DECORATORS:
      bad.append(name)
  return bad
