"""Evaluation of a walker value (a term over the function's parameters) at concrete parameter values: numbers, literal dicts, comprehensions with filters,
min / max / sum / len.  Nothing of the library is executed: the term was read off the source by the walker, and it is the *term* that is evaluated - the same
kind of step as instantiating a write table at sample lengths.  Raises Unknown for anything outside the small language."""
from __future__ import annotations
from fractions import Fraction
from .poly import Poly, Atom
from . import sym


class Unknown(Exception):
  pass


class Raises(Exception):
  """The term has no value here because the operation it stands for raises (min / max of an empty sequence, a missing key)."""


def _lit(x):
  a = x.as_atom() if isinstance(x, Poly) else (x if isinstance(x, Atom) else None)
  return a.args[0] if a is not None and a.kind == "lit" else None


def ev(p, env):
  """env: {Atom: python value}.  Returns an int / Fraction / float / bool / None / list / tuple / dict."""
  if isinstance(p, (int, Fraction, float)):
    return p
  if isinstance(p, sym.Const):
    return p.v
  if isinstance(p, sym.Seq):
    return [ev(x, env) for x in p.items]
  if isinstance(p, Atom):
    return _atom(p, env)
  if not isinstance(p, Poly):
    raise Unknown("value %r" % (p,))
  a = p.as_atom()
  if a is not None:
    return _atom(a, env)
  total = Fraction(0)
  for mono, co in p.t.items():
    term = Fraction(co)
    for at, e in mono:
      v = _atom(at, env)
      if isinstance(v, bool) or not isinstance(v, (int, Fraction)):
        raise Unknown("non-integer factor %r" % (at,))
      term *= Fraction(v) ** e
    total += term
  return int(total) if total.denominator == 1 else total


def _seq(v):
  if isinstance(v, dict):
    return list(v.keys())
  if isinstance(v, (list, tuple, range)):
    return list(v)
  raise Unknown("not a sequence: %r" % (v,))


def _atom(a, env):
  if a in env:
    return env[a]
  k = a.kind
  if k == "dictlit":
    vals = [ev(x, env) for x in a.args]
    return dict(zip(vals[0::2], vals[1::2]))
  if k == "emptydict":
    return {}
  if k == "seq":
    return [ev(x, env) for x in a.args]
  if k in ("items", "keys", "values") and len(a.args) == 1:
    d = ev(a.args[0], env)
    if not isinstance(d, dict):
      raise Unknown("%s of a non-dict" % k)
    return [(x, y) for x, y in d.items()] if k == "items" else (list(d.keys()) if k == "keys" else list(d.values()))
  if k == "key" and len(a.args) == 2:
    d, i = ev(a.args[0], env), ev(a.args[1], env)
    if isinstance(d, dict) and isinstance(i, int) and 0 <= i < len(d):
      return list(d.keys())[i]
    raise Unknown("key()")
  if k == "idx" and len(a.args) == 2:
    c, i = ev(a.args[0], env), ev(a.args[1], env)
    try:
      if isinstance(c, dict):
        ia = a.args[1].as_atom() if isinstance(a.args[1], Poly) else None
        if ia is not None and ia.kind in ("bv", "sym"):
          return list(c.keys())[i]          # the walker's element of an iterated dict: its i-th key
        return c[i]
      return _seq(c)[i]
    except (KeyError, IndexError, TypeError):
      raise Unknown("index %r out of %r" % (i, type(c).__name__))
  if k == "range":
    args = [ev(x, env) for x in a.args]
    if not all(isinstance(x, int) and not isinstance(x, bool) for x in args) or not 1 <= len(args) <= 3:
      raise Unknown("range")
    r = range(*args)
    if len(r) > 100000:
      raise Unknown("range too long")
    return list(r)
  if k == "enumerate" and len(a.args) == 1:
    return list(enumerate(_seq(ev(a.args[0], env))))
  if k == "zip":
    return list(zip(*[_seq(ev(x, env)) for x in a.args]))
  if k == "filter" and len(a.args) == 2:
    src = _seq(ev(a.args[0], env))
    ca = a.args[1].as_atom() if isinstance(a.args[1], Poly) else None
    conds = sym.FILTER_CONDS.get(ca.args[0]) if ca is not None and ca.kind == "cond" else None
    if conds is None:
      raise Unknown("filter condition")
    bvs = sorted({x for c in conds for q in sym._cond_polys(c) if isinstance(q, Poly) for x in q.all_atoms() if x.kind == "bv"}, key=repr)
    if len(bvs) > 1:
      raise Unknown("filter over several bound variables")
    out = []
    for i, item in enumerate(src):
      e2 = dict(env)
      if bvs:
        e2[bvs[0]] = i
      if all(cond(c, e2) for c in conds):
        out.append(item)
    return out
  if k == "map" and len(a.args) == 3:
    src = _seq(ev(a.args[2], env))
    out = []
    for i in range(len(src)):
      e2 = dict(env)
      e2[a.args[1]] = i
      out.append(ev(a.args[0], e2))
    return out
  if k in ("min", "max", "sum", "len", "sorted", "list", "tuple", "set") and len(a.args) == 1:
    v = ev(a.args[0], env)
    s = _seq(v)
    if k == "len":
      return len(s)
    if k in ("list", "tuple"):
      return s
    if k == "set":
      return sorted(set(s))
    if k == "sorted":
      return sorted(s)
    if k == "sum":
      return sum(s)
    if not s:
      raise Raises("%s() of an empty sequence (ValueError)" % k)
    return min(s) if k == "min" else max(s)
  if k in ("min", "max") and len(a.args) >= 2:
    vals = [ev(x, env) for x in a.args]
    return min(vals) if k == "min" else max(vals)
  if k == "pow" and len(a.args) == 2:
    b, e = ev(a.args[0], env), ev(a.args[1], env)
    if isinstance(b, int) and isinstance(e, int) and 0 <= e <= 4096:
      return b ** e
    raise Unknown("pow")
  if k in ("fdiv", "mod", "shl", "shr") and len(a.args) == 2:
    x, y = ev(a.args[0], env), ev(a.args[1], env)
    if not (isinstance(x, int) and isinstance(y, int)) or (k in ("fdiv", "mod") and y == 0) or (k in ("shl", "shr") and not 0 <= y <= 4096):
      raise Unknown(k)
    return x // y if k == "fdiv" else x % y if k == "mod" else x << y if k == "shl" else x >> y
  if k == "bitlen" and len(a.args) == 1:
    x = ev(a.args[0], env)
    if isinstance(x, int):
      return x.bit_length()
    raise Unknown("bitlen")
  if k == "abs" and len(a.args) == 1:
    return abs(ev(a.args[0], env))
  raise Unknown("atom %s" % k)


def cond(c, env):
  if c[0] == "const":
    return bool(c[1])
  if c[0] == "not":
    return not cond(c[1], env)
  if c[0] in ("and", "or"):
    vals = [cond(x, env) for x in c[1]]
    return all(vals) if c[0] == "and" else any(vals)
  if c[0] in ("truthy", "falsy"):
    v = bool(ev(c[1], env))
    return v if c[0] == "truthy" else not v
  if c[0] == "cmp":
    l, r = ev(c[2], env), ev(c[3], env)
    op = c[1]
    try:
      if op == "In":
        return l in _seq(r)
      if op == "NotIn":
        return l not in _seq(r)
      return {"Lt": l < r, "LtE": l <= r, "Gt": l > r, "GtE": l >= r, "Eq": l == r, "NotEq": l != r, "Is": l is r or l == r, "IsNot": not (l is r or l == r)}[op]
    except (TypeError, KeyError):
      raise Unknown("comparison %s" % op)
  raise Unknown("condition %r" % (c[0],))
