"""Write tables: the stores a function makes into a freshly allocated zero matrix, collected along one path as a parametric table

    (row(k..), col(k..), value(k..), loops [(k, start, stop, step)], guards)

in program order (loop bodies expanded in place, nested loops included), and the instantiation of such a table at sample list lengths: a grid of
polynomial cells that a rule compares with the matrix its specification draws.  The table is read off the walker's events; nothing of the analysed
code is executed.
"""
from __future__ import annotations
import ast
from .poly import Poly, Atom, P
from . import sym
from .sym import Const, Seq, as_poly
from .core import Incomplete


def _atom(x):
  if isinstance(x, Atom):
    return x
  if isinstance(x, Poly):
    return x.as_atom()
  return None


def zero_alloc(x):
  """(rows, cols, fill) if x is [[fill] * cols for _ in range(rows)] (also through element / row updates)."""
  a = _atom(x)
  seen = 0
  while a is not None and a.kind in ("upd", "mut") and seen < 10000:
    a = _atom(a.args[0])
    seen += 1
  if a is None or a.kind != "map" or len(a.args) != 3:
    return None
  el = _atom(a.args[0])
  src = _atom(a.args[2])
  if el is None or el.kind != "listrep" or src is None or src.kind != "range" or len(src.args) != 1:
    return None
  fill = _atom(el.args[0])
  if fill is None or fill.kind != "seq" or len(fill.args) != 1:
    return None
  if any(y == a.args[1] for y in as_poly(el.args[1]).all_atoms()):
    return None
  return as_poly(src.args[0]), as_poly(el.args[1]), as_poly(fill.args[0]), a


def _is_prefix(short, long_):
  return len(short) <= len(long_) and all(x == y for x, y in zip(short, long_))


def _pc_key(pc):
  return [(id(n), pol) for _, pol, n in pc]


class Table:
  def __init__(self, rows, cols, fill):
    self.rows, self.cols, self.fill = rows, cols, fill
    self.writes = []       # dicts: kind cell|row, row, col, value, loops, guards, line

  def describe(self):
    out = []
    for w_ in self.writes:
      out.append("L%s %s[%r][%r] = %r  loops=%r guards=%r" % (w_["line"], w_["kind"], w_["row"], w_.get("col"), w_["value"], [(repr(l[0]), repr(l[1]), repr(l[2])) for l in w_["loops"]], w_["guards"]))
    return out


def extract(w, anchor, matrix):
  """The write table of `matrix` (a value rooted in a zero allocation) along the path that ends in state `anchor`."""
  za = zero_alloc(matrix)
  if za is None:
    # not a zero matrix: the matrix may be given as a list of rows (literal rows, comprehensions, appended rows) that later stores refine
    ra = _atom(as_poly(matrix)) if isinstance(matrix, (Poly, Seq)) else None
    seen_ = 0
    while ra is not None and ra.kind in ("upd", "mut") and seen_ < 10000:
      ra = _atom(ra.args[0])
      seen_ += 1
    if ra is None or ra.kind not in ("seq", "concat", "map", "listrep"):
      raise Incomplete("the matrix is not allocated as [[0] * n for _ in range(n)]: %r" % (matrix,))
    rows, cols, fill, alloc_atom = None, None, Poly.const(0), ra
    tab = Table(rows, cols, fill)
    tab.base_value = Poly.atom(ra)
  else:
    rows, cols, fill, alloc_atom = za
    tab = Table(rows, cols, fill)
    tab.base_value = None
  visits = []
  for li in w.loop_info.values():
    for v in li.get("visits", []):
      visits.append((li, v))

  def is_target(x):
    z = zero_alloc(x)
    if z is not None:
      return z[3] == alloc_atom
    a_ = _atom(as_poly(x)) if isinstance(x, (Poly, Seq)) else None
    n_ = 0
    while a_ is not None and a_.kind in ("upd", "mut") and n_ < 10000:
      a_ = _atom(a_.args[0])
      n_ += 1
    return a_ is not None and a_ == alloc_atom

  pending = {}     # id(target node) -> (op, rhs) of the augmented assignment whose store event follows

  def do_store(e, loops, guards):
    base = as_poly(e.data["base"])
    ba = base.as_atom()
    line = getattr(e.node, "lineno", None)
    if is_target(base):
      if e.data.get("slice_lo") is not None or e.data.get("slice_hi") is not None:
        raise Incomplete("slice store into the matrix (line %s)" % line)
      tab.writes.append({"kind": "row", "row": as_poly(e.data["index"]), "col": None, "value": e.data["value"], "loops": list(loops), "guards": list(guards), "line": line})
    elif e.data.get("outer_base") is not None and isinstance(e.data["outer_base"], Poly) and is_target(e.data["outer_base"]):
      v = e.data["value"]
      acc = pending.pop(id(e.data.get("target")), None)
      if acc is not None:
        op, rhs = acc
        if op != "Add" or not (isinstance(rhs, (Poly, int)) or (isinstance(rhs, Const) and isinstance(rhs.v, (int, float)) and not isinstance(rhs.v, bool))):
          raise Incomplete("augmented store %s= at line %s is not modelled" % (op, line))
        tab.writes.append({"kind": "add", "row": as_poly(e.data["outer_index"]), "col": as_poly(e.data["index"]), "value": Poly.const(rhs) if isinstance(rhs, int) else as_poly(rhs),
                           "loops": list(loops), "guards": list(guards), "line": line})
        return
      if not (isinstance(v, (Poly, int)) or (isinstance(v, Const) and isinstance(v.v, (int, float)) and not isinstance(v.v, bool))):
        raise Incomplete("non-numeric cell value at line %s: %r" % (line, v))
      # `m[r][c] = m[r][c] + x` written out: the walker reads the cell of the freshly allocated matrix as row-template[c]
      if isinstance(v, Poly) and cols is not None:
        old_cell = sym.mk("idx", sym.mk("listrep", P("seq", fill), cols), as_poly(e.data["index"]))
        oa = old_cell.as_atom()
        if oa is not None and oa in v.atoms():
          rhs = v - old_cell
          if oa not in rhs.all_atoms():
            tab.writes.append({"kind": "add", "row": as_poly(e.data["outer_index"]), "col": as_poly(e.data["index"]), "value": rhs, "loops": list(loops), "guards": list(guards), "line": line})
            return
          raise Incomplete("the cell stored at line %s depends on its old value in a way that is not an addition" % line)
      tab.writes.append({"kind": "cell", "row": as_poly(e.data["outer_index"]), "col": as_poly(e.data["index"]), "value": Poly.const(v) if isinstance(v, int) else as_poly(v),
                         "loops": list(loops), "guards": list(guards), "line": line})

  def gather(state, start, head_pc_len, loops, guards, depth=0):
    """items for the events of state.trace[start:], with the loops that start in between expanded in place"""
    if depth > 6:
      raise Incomplete("loops nested too deeply")
    items = []
    tr = state.trace
    pck = _pc_key(state.pc)
    here = []
    for li, v in visits:
      pre = v["pre"]
      if len(pre.trace) < start or not _is_prefix(pre.trace, tr) or not _is_prefix(_pc_key(pre.pc), pck) or len(pre.pc) < head_pc_len:
        continue
      if any(v is l_[4] for l_ in loops):
        continue
      here.append((len(pre.trace), len(pre.pc), getattr(li["node"], "lineno", 0), li, v))
    here.sort(key=lambda t_: (t_[0], t_[1], t_[2]))
    pos = start
    hi = 0
    while pos <= len(tr):
      while hi < len(here) and here[hi][0] == pos:
        _, _, _, li, v = here[hi]
        hi += 1
        it = do_loop(li, v, loops, guards, depth)
        if it is not None:
          items.append(it)
      if pos == len(tr):
        break
      e = w.events[tr[pos]]
      if e.kind == "augstore":
        pending[id(e.data.get("target"))] = (e.data.get("op"), e.data.get("rhs"))
      elif e.kind == "store":
        n0 = len(tab.writes)
        do_store(e, loops, guards)
        for wr in tab.writes[n0:]:
          items.append(("write", wr))
      elif e.kind == "mutate" and isinstance(e.data.get("recv"), (Poly, Atom)) and (is_target(e.data["recv"]) or (_atom(e.data["recv"]) is not None and _atom(e.data["recv"]).kind == "idx" and is_target(_atom(e.data["recv"]).args[0]))):
        raise Incomplete("in-place list method on the matrix at line %s" % getattr(e.node, "lineno", None))
      pos += 1
    return items

  def do_loop(li, v, loops, guards, depth):
    if not isinstance(li["node"], ast.For):
      # a while loop that does not touch the matrix is irrelevant
      for bp in li["body_paths"]:
        if bp[4] is v:
          for i_ in bp[2].trace[bp[3]:]:
            e = w.events[i_]
            if e.kind == "store" and (is_target(as_poly(e.data["base"])) or (isinstance(e.data.get("outer_base"), Poly) and is_target(e.data["outer_base"]))):
              raise Incomplete("the matrix is filled inside a while loop (line %s)" % li["node"].lineno)
      return None
    it = v["iter"]
    ra = _atom(it) if isinstance(it, Poly) else None
    k = as_poly(v["k"])
    if ra is not None and ra.kind == "range":
      args = [as_poly(x) for x in ra.args]
      start, stop, step = (Poly.const(0), args[0], Poly.const(1)) if len(args) == 1 else (args[0], args[1], Poly.const(1)) if len(args) == 2 else tuple(args)
    else:
      # iteration over a list value: k runs over 0 .. len(it) - 1
      start, stop, step = Poly.const(0), sym.mk("len", as_poly(it)) if isinstance(it, Poly) else None, Poly.const(1)
      if stop is None:
        raise Incomplete("loop over an unmodelled iterable at line %s" % li["node"].lineno)
    paths = [bp for bp in li["body_paths"] if bp[4] is v]
    head = v["head"]
    # loop-carried numbers (a running column index `col += 1`, ...): their values are followed pass by pass when the table is instantiated
    carried = {}
    for nm in li["modified"]:
      hv = head.env.get(nm)
      ha = _atom(hv) if isinstance(hv, Poly) else None
      if ha is not None and ha.kind == "sym" and ha != _atom(k):
        carried[nm] = ha
    pre_map = {ha: v["pre_env"].get(nm) for nm, ha in carried.items()}
    after_map = {}
    for nm, ha in carried.items():
      av = (v.get("after_env") or {}).get(nm)
      aa = _atom(av) if isinstance(av, Poly) else None
      if aa is not None and aa.kind == "sym":
        after_map[aa] = ha
    alts = []
    for kind, val, st, since, _ in paths:
      if kind not in ("fall", "continue"):
        touches = any(w.events[i_].kind == "store" for i_ in st.trace[since:])
        if touches:
          raise Incomplete("the loop at line %s is left early" % li["node"].lineno)
        continue
      newf = list(st.facts[len(head.facts):])
      sub = gather(st, since, len(head.pc), loops + [(k, start, stop, step, v)], guards + newf, depth + 1)
      ends = {ha: st.env.get(nm) for nm, ha in carried.items()}
      alts.append((newf, sub, ends))
    if not any(a_[1] for a_ in alts):
      return None
    return ("loop", k, start, stop, step, alts, li["node"].lineno, pre_map, after_map)

  tab.items = gather(anchor, 0, 0, [], [])
  return tab


# ------------------------------------------------------------------------------------------------------------------ instantiation
def subst_all(p, env):
  """deep-substitute {atom: value} in a polynomial until nothing changes; constant folding is done by re-making the atoms"""
  if not isinstance(p, Poly):
    return p
  for _ in range(4):
    q = p
    for a, val in env:
      q = q.deep_subst(a, Poly.const(val) if isinstance(val, int) else as_poly(val))
    q = fold_len(sym.rebuild(q))
    if q == p:
      break
    p = q
  return p


def length_of(x):
  """len() of a list value as a polynomial, or None."""
  if isinstance(x, Seq):
    return Poly.const(len(x.items))
  a = _atom(x)
  if a is None:
    return None
  if a.kind == "seq":
    return Poly.const(len(a.args))
  if a.kind == "map" and len(a.args) == 3:
    inner = length_of(a.args[2])
    return inner if inner is not None else sym.mk("len", as_poly(a.args[2]))
  if a.kind == "listrep":
    b = length_of(a.args[0])
    return None if b is None else b * as_poly(a.args[1])
  if a.kind == "concat":
    l, r = length_of(a.args[0]), length_of(a.args[1])
    return None if l is None or r is None else l + r
  if a.kind in ("enumerate", "reversed", "sorted", "list", "tuple") and len(a.args) >= 1:
    inner = length_of(a.args[0])
    return inner if inner is not None else sym.mk("len", as_poly(a.args[0]))
  if a.kind == "range":
    args = [as_poly(z).as_int() for z in a.args]
    if all(z is not None for z in args):
      return Poly.const(len(range(*args)))
    if len(a.args) == 1:
      return as_poly(a.args[0])
  return None


def fold_len(p):
  for _ in range(6):
    ch = False
    for a in list(p.all_atoms()):
      if a.kind == "len" and len(a.args) == 1:
        n = length_of(a.args[0])
        if n is not None and n != Poly.atom(a):
          p = sym.rebuild(p.deep_subst(a, n))
          ch = True
      elif a.kind in ("min", "max") and all(isinstance(z, Poly) and z.as_int() is not None for z in a.args):
        vals = [z.as_int() for z in a.args]
        p = sym.rebuild(p.deep_subst(a, Poly.const(min(vals) if a.kind == "min" else max(vals))))
        ch = True
    if not ch:
      break
  return p


def _eval_fact(fc, env):
  """True / False / None for a comparison fact under env."""
  if not (isinstance(fc, tuple) and fc and fc[0] == "cmp" and len(fc) == 4):
    return None
  l, r = fc[2], fc[3]
  if not isinstance(l, (Poly, int)) or not isinstance(r, (Poly, int)):
    return None
  li, ri = subst_all(as_poly(l), env).as_int(), subst_all(as_poly(r), env).as_int()
  if li is None or ri is None:
    return None
  return {"Eq": li == ri, "NotEq": li != ri, "Lt": li < ri, "LtE": li <= ri, "Gt": li > ri, "GtE": li >= ri}.get(fc[1])


def instantiate(tab, env):
  """The grid {(r, c): Poly} of the table at the sizes in env ([(atom, int)]); raises Incomplete when an index does not become a number."""
  if getattr(tab, "base_value", None) is not None:
    grid = grid_of_value(tab.base_value, env)
    if grid is None or not grid or any(len(r_) != len(grid[0]) for r_ in grid):
      raise Incomplete("the matrix value %r is not a rectangular list of rows at the sample lengths" % (tab.base_value,))
    R, C = len(grid), len(grid[0])
  else:
    R, C = subst_all(tab.rows, env).as_int(), subst_all(tab.cols, env).as_int()
    if R is None or C is None or R > 64 or C > 64:
      raise Incomplete("matrix size %r x %r is not a number at the sample lengths" % (tab.rows, tab.cols))
    grid = [[subst_all(tab.fill, env) for _ in range(C)] for _ in range(R)]

  def apply(wr, env2):
    r = subst_all(wr["row"], env2).as_int()
    if r is None:
      raise Incomplete("row index %r at line %s is not a number at the sample lengths" % (wr["row"], wr["line"]))
    if r < 0:
      r += R
    if not 0 <= r < R:
      raise IndexError("row %d outside the %d x %d matrix (line %s)" % (r, R, C, wr["line"]))
    if wr["kind"] in ("cell", "add"):
      c = subst_all(wr["col"], env2).as_int()
      if c is None:
        raise Incomplete("column index %r at line %s is not a number at the sample lengths" % (wr["col"], wr["line"]))
      if c < 0:
        c += C
      if not 0 <= c < C:
        raise IndexError("column %d outside the %d x %d matrix (line %s)" % (c, R, C, wr["line"]))
      if wr["kind"] == "add":
        grid[r][c] = as_poly(grid[r][c]) + subst_all(wr["value"], env2)
      else:
        grid[r][c] = subst_all(wr["value"], env2)
    else:
      items = list_items(wr["value"], env2)
      if items is None:
        raise Incomplete("row value %r at line %s is not a list of known length at the sample lengths" % (wr["value"], wr["line"]))
      if len(items) != C:
        raise IndexError("row of length %d stored into the %d x %d matrix (line %s)" % (len(items), R, C, wr["line"]))
      grid[r] = items

  def holds(guards, env2, ksyms, line):
    for g in guards:
      verdict = _eval_fact(g, env2)
      if verdict is False:
        return False
      if verdict is None and isinstance(g, tuple) and g and g[0] == "cmp":
        relevant = any(isinstance(x, Poly) and any(a in ksyms for a in x.all_atoms()) for x in g[2:4])
        if relevant:
          raise Incomplete("guard %r at line %s is not decided at the sample lengths" % (g, line))
    return True

  def known(x, env_):
    """the value of a carried number under env_, when it is one"""
    if isinstance(x, Const) and isinstance(x.v, int) and not isinstance(x.v, bool):
      return Poly.const(x.v)
    if isinstance(x, int) and not isinstance(x, bool):
      return Poly.const(x)
    if isinstance(x, Poly):
      y = subst_all(x, env_)
      return y if y.as_int() is not None else None
    return None

  def run_items(items, env2, ksyms):
    """applies the items; returns the bindings of loop-exit symbols (carried numbers) the following items may use"""
    env2 = list(env2)
    for it in items:
      if it[0] == "write":
        apply(it[1], env2)
        continue
      _, k, start, stop, step, alts, line = it[:7]
      pre_map, after_map = (it[7], it[8]) if len(it) > 8 else ({}, {})
      s0, s1, s2 = (subst_all(x, env2).as_int() for x in (start, stop, step))
      if s0 is None or s1 is None or s2 is None or s2 == 0 or abs(s1 - s0) > 4096:
        raise Incomplete("loop bounds %r, %r, %r at line %s are not numbers at the sample lengths" % (start, stop, step, line))
      ka = k.as_atom()
      cur = {}
      for ha, pv in pre_map.items():
        kv = known(pv, env2)
        if kv is not None:
          cur[ha] = kv
      for t_, _val in enumerate(range(s0, s1, s2)):
        env3 = [e_ for e_ in env2 if e_[0] not in cur] + [(ka, t_)] + [(ha, cv.as_int()) for ha, cv in cur.items()]
        taken = [a_ for a_ in alts if holds(a_[0], env3, ksyms | {ka}, line)]
        if len(taken) > 1 and any(taken[0] is not x and _flat(x[1]) != _flat(taken[0][1]) for x in taken):
          # paths that differ only in conditions the table does not depend on write the same cells
          raise Incomplete("two paths through the loop at line %s are possible for the same pass" % line)
        if taken:
          env4 = run_items(taken[0][1], env3, ksyms | {ka})
          ends = taken[0][2] if len(taken[0]) > 2 else {}
          nxt = {}
          for ha in list(cur):
            kv = known(ends.get(ha), env4)
            if kv is not None:
              nxt[ha] = kv
          cur = nxt
      for aa, ha in after_map.items():
        if ha in cur:
          env2 = [e_ for e_ in env2 if e_[0] != aa] + [(aa, cur[ha].as_int())]
    return env2

  run_items(getattr(tab, "items", [("write", wr) for wr in tab.writes]), list(env), set())
  return grid


def _flat(items):
  out = []
  for it in items:
    if it[0] == "write":
      wr = it[1]
      out.append((wr["kind"], repr(wr["row"]), repr(wr.get("col")), repr(wr["value"]), wr["line"]))
    else:
      out.append(("loop", repr(it[1]), repr(it[2]), repr(it[3]), [(_flat(a_[1])) for a_ in it[5]]))
  return out


def list_items(v, env, unordered_ok=False):
  """The elements of a list value (Seq, concat, comprehension over a parameter list / range, repetition) at the sample lengths, or None.
  unordered_ok: a polynomial sum of list values (the walker's form of `L += [..]` on an opaque list) is accepted, in no particular order."""
  if unordered_ok and isinstance(v, Poly) and v.as_atom() is None and not v.is_const():
    out = []
    for k_, c_ in v.t.items():
      if c_ != 1 or len(k_) != 1 or k_[0][1] != 1:
        return None
      part = list_items(Poly.atom(k_[0][0]), env)
      if part is None:
        return None
      out += part
    return out
  if isinstance(v, Seq):
    out = []
    for x in v.items:
      if not isinstance(x, (Poly, int)):
        return None
      out.append(subst_all(as_poly(x), env))
    return out
  a = _atom(v)
  if a is None:
    return None
  if a.kind == "seq":
    return [subst_all(as_poly(x), env) for x in a.args]
  if a.kind == "upd" and len(a.args) == 3:
    base = list_items(a.args[0], env)
    i = subst_all(as_poly(a.args[1]), env).as_int()
    if base is None or i is None or not -len(base) <= i < len(base):
      return None
    base = list(base)
    base[i] = subst_all(as_poly(a.args[2]), env)
    return base
  if a.kind == "concat":
    l, r = list_items(a.args[0], env), list_items(a.args[1], env)
    return None if l is None or r is None else l + r
  if a.kind == "listrep":
    base = list_items(a.args[0], env)
    n = subst_all(as_poly(a.args[1]), env).as_int()
    return None if base is None or n is None or n > 4096 else base * n
  if a.kind == "map" and len(a.args) == 3:
    n = subst_all(sym.mk("len", as_poly(a.args[2])), env).as_int()
    if n is None:
      src = list_items(a.args[2], env)
      n = len(src) if src is not None else None
    if n is None or n > 4096:
      return None
    bv = a.args[1]
    return [subst_all(as_poly(a.args[0]), env + [(bv, t)]) for t in range(n)]
  if a.kind == "range":
    args = [subst_all(as_poly(x), env).as_int() for x in a.args]
    if any(x is None for x in args):
      return None
    return [Poly.const(t) for t in range(*args)]
  if a.kind in ("list", "tuple", "sorted") and len(a.args) == 1:
    inner = list_items(a.args[0], env)
    if inner is not None and a.kind == "sorted":
      ints = [x.as_int() for x in inner]
      return [Poly.const(x) for x in sorted(ints)] if all(x is not None for x in ints) else None
    return inner
  if a.kind == "extcall" and len(a.args) >= 2 and repr(a.args[0]) in ("lit('list')", "lit('tuple')"):
    return list_items(a.args[1], env)
  return None


def feasible(state):
  """False when the path carries a comparison between two numbers that is false (a branch the walker could not prune)."""
  eq, ne = {}, {}
  for fc in state.facts:
    if _eval_fact(fc, []) is False:
      return False
    if isinstance(fc, tuple) and len(fc) == 4 and fc[0] == "cmp" and fc[1] in ("Eq", "NotEq"):
      for x, y in ((fc[2], fc[3]), (fc[3], fc[2])):
        if isinstance(x, Poly) and x.as_int() is None and isinstance(y, (Poly, int)) and (Poly.const(y) if isinstance(y, int) else y).as_int() is not None:
          c = (Poly.const(y) if isinstance(y, int) else y).as_int()
          (eq if fc[1] == "Eq" else ne).setdefault(repr(x), set()).add(c)
  for k, vs in eq.items():
    if len(vs) > 1 or (vs & ne.get(k, set())):
      return False          # x == c together with x == c' or x != c: the walker does not prune across reordered comparisons
  return True


def rows_of(grid):
  return sorted(tuple(repr(c) for c in row) for row in grid)


def diff(grid, spec):
  """None when the two grids have the same rows (in any order), else a description of the first difference."""
  if len(grid) != len(spec) or any(len(r) != len(s) for r, s in zip(grid, spec)):
    return "shape %dx%d, specified %dx%d" % (len(grid), len(grid[0]) if grid else 0, len(spec), len(spec[0]) if spec else 0)
  if rows_of(grid) == rows_of(spec):
    return None
  for i, (r, s) in enumerate(zip(grid, spec)):
    for j, (x, y) in enumerate(zip(r, s)):
      if not (as_poly(x) - as_poly(y)).is_zero():
        return "entry [%d][%d] is %r, specified %r" % (i, j, x, y)
  return "rows differ"


def grid_of_value(val, env):
  """The grid of a matrix given as a VALUE (a list of rows: literal rows, comprehensions, repetitions, concatenations, rows with single cells set),
  at the sample lengths; None when some part is not a list of known length."""
  rows = list_items(val, env)
  if rows is None:
    return None
  grid = []
  for r in rows:
    items = list_items(r, env)
    if items is None:
      return None
    grid.append(items)
  return grid
