"""Semantic equality of real-valued terms modulo field axioms: true division is expanded to rational
functions, decimal literals become exact rationals, function applications (sqrt, erfc, log, sum over a
comprehension, calls) are compared recursively on canonicalised arguments."""
from __future__ import annotations
from fractions import Fraction
from decimal import Decimal
from .poly import Poly, Atom, P
from .sym import Const, Seq, as_poly, rebuild


class Frac:
  __slots__ = ("n", "d")

  def __init__(self, n, d=None):
    self.n = n if isinstance(n, Poly) else Poly.const(n)
    self.d = Poly.const(1) if d is None else (d if isinstance(d, Poly) else Poly.const(d))

  def _l(self, o):
    return o if isinstance(o, Frac) else Frac(o)

  def __add__(self, o):
    o = self._l(o)
    if self.d == o.d:
      return Frac(self.n + o.n, self.d)
    return Frac(self.n * o.d + o.n * self.d, self.d * o.d)
  __radd__ = __add__

  def __neg__(self):
    return Frac(-self.n, self.d)

  def __sub__(self, o):
    return self + (-self._l(o))

  def __rsub__(self, o):
    return self._l(o) - self

  def __mul__(self, o):
    o = self._l(o)
    return Frac(self.n * o.n, self.d * o.d)
  __rmul__ = __mul__

  def __truediv__(self, o):
    o = self._l(o)
    return Frac(self.n * o.d, self.d * o.n)

  def __rtruediv__(self, o):
    return self._l(o) / self

  def __pow__(self, e):
    if e < 0:
      return Frac(self.d ** (-e), self.n ** (-e))
    return Frac(self.n ** e, self.d ** e)

  def equals(self, o):
    o = self._l(o)
    return (self.n * o.d - o.n * self.d).is_zero()

  def __repr__(self):
    return "(%r)/(%r)" % (self.n, self.d)


class Canon:
  """Canonicaliser shared by the two sides of a comparison."""

  def __init__(self):
    self.entries = []   # (kind, [canonical args], atom)
    self.depth = 0

  def frac(self, p):
    if isinstance(p, Const):
      if isinstance(p.v, bool):
        return Frac(int(p.v))
      if isinstance(p.v, int):
        return Frac(p.v)
      if isinstance(p.v, float):
        return Frac(Poly.const(Fraction(Decimal(repr(p.v)))))
    p = as_poly(p)
    tot = Frac(0)
    for mono, c in p.t.items():
      term = Frac(Poly.const(c))
      for a, e in mono:
        term = term * (self.atom(a) ** e)
      tot = tot + term
    return tot

  def atom(self, a):
    k = a.kind
    if k == "tdiv" and len(a.args) == 2:
      return self.frac(a.args[0]) / self.frac(a.args[1])
    if k == "lit":
      s = a.args[0]
      try:
        return Frac(Poly.const(Fraction(Decimal(str(s)))))
      except Exception:
        return Frac(Poly.atom(a))
    if k == "pow" and len(a.args) == 2 and isinstance(a.args[1], Poly):
      ei = a.args[1].as_int()
      if ei is not None and abs(ei) <= 16:
        return self.frac(a.args[0]) ** ei
    if k in ("param", "sym", "bv", "glob", "ref", "u", "cbv"):
      return Frac(Poly.atom(a))
    if k == "map" and len(a.args) == 3:
      elt, bv, src = a.args
      if isinstance(bv, Poly) and bv.as_atom() is not None:
        bv = bv.as_atom()
      # a comprehension over a comprehension runs over the index set of the innermost source (elements were already resolved by index)
      while isinstance(src, Poly) and src.as_atom() is not None and src.as_atom().kind == "map" and len(src.as_atom().args) == 3:
        src = src.as_atom().args[2]
      self.depth += 1
      cb = Atom("cbv", self.depth)
      elt2 = rebuild(elt.deep_subst(bv, Poly.atom(cb))) if isinstance(elt, Poly) else elt
      src2 = rebuild(src.deep_subst(bv, Poly.atom(cb))) if isinstance(src, Poly) else src
      args = [self.frac(elt2), self.frac(src2)]
      self.depth -= 1
      return self.lookup("map", args)
    args = []
    for x in a.args:
      if isinstance(x, Poly):
        args.append(self.frac(x))
      elif isinstance(x, Atom):
        args.append(self.atom(x))
      else:
        args.append(x)
    return self.lookup(k, args)

  def lookup(self, kind, args):
    for k2, a2, at in self.entries:
      if k2 != kind or len(a2) != len(args):
        continue
      same = True
      for x, y in zip(args, a2):
        if isinstance(x, Frac) and isinstance(y, Frac):
          if not x.equals(y):
            same = False
            break
        elif repr(x) != repr(y):
          same = False
          break
      if same:
        return Frac(Poly.atom(at))
    at = Atom("fn", kind, len(self.entries))
    self.entries.append((kind, args, at))
    return Frac(Poly.atom(at))


def equal_terms(a, b):
  """(True/False, text): are the two real-valued terms equal as rational functions of their function atoms?"""
  c = Canon()
  fa, fb = c.frac(a), c.frac(b)
  if fa.equals(fb):
    return True, ""
  r = fa.n * fb.d - fb.n * fa.d
  return False, "%d-term difference" % len(r.t)
