"""Goal discharge over the polynomial algebra (DESIGN 2.3): equalities, divisibility."""
from __future__ import annotations
from fractions import Fraction
from .poly import Poly, Atom, P
from .sym import rebuild, subst_all, Const, Seq, as_poly


def eq_facts(facts):
  """Polynomials known to be zero."""
  out = []
  for f in facts:
    if f[0] == "cmp" and f[1] == "Eq" and isinstance(f[2], Poly) and isinstance(f[3], Poly):
      out.append(f[2] - f[3])
  return out


def squares(facts):
  return [f[1] for f in facts if f[0] == "square" and isinstance(f[1], Poly)]


def rewrite_squares(p, sq):
  """isqrt(X)^2 -> X for every X known to be a perfect square."""
  for X in sq:
    a = Atom("isqrt", X)
    if a not in p.atoms():
      continue
    r = Poly()
    for k, v in p.t.items():
      term = Poly.const(v)
      for b, e in k:
        if b == a:
          term = term * (X ** (e // 2)) * (Poly.atom(a) if e % 2 else Poly.const(1))
        else:
          term = term * Poly({((b, e),): Fraction(1)})
      r = r + term
    p = r
  return p


SUBST_KINDS = ("sym", "param")


def solve_for_atom(d):
  """d = 0 with an atom a occurring only as c*a: returns (a, -rest/c) or None."""
  for k, v in d.t.items():
    if len(k) == 1 and k[0][1] == 1:
      a = k[0][0]
      if a.kind not in SUBST_KINDS:
        continue
      rest = d - Poly({k: v})
      if a in rest.all_atoms():
        continue
      return a, rest * (Fraction(-1) / v)
  return None


def apply_equalities(p, facts, rounds=3):
  """Substitutes atoms determined by equality facts (e.g. bit = 0) and re-normalises."""
  eqs = eq_facts(facts)
  for _ in range(rounds):
    changed = False
    for d in eqs:
      d = rebuild(d)
      s = solve_for_atom(d)
      if s is None:
        continue
      a, q = s
      if a in p.all_atoms():
        p2 = subst_all(p, a, q)
        if p2 != p:
          p = p2
          changed = True
    if not changed:
      break
  return p


def normalise(p, facts):
  p = apply_equalities(p, facts)
  sq = [apply_equalities(x, facts) for x in squares(facts)]
  return rewrite_squares(p, sq)


def prove_zero(goal, facts):
  """Returns a proof string if goal == 0 follows from the facts, else None."""
  if goal.is_zero():
    return "identity"
  g = normalise(goal, facts)
  if g.is_zero():
    return "identity after rewriting (squares / guard substitutions)"
  for h in eq_facts(facts):
    h = normalise(h, facts)
    if h.is_zero():
      continue
    for c in (1, -1):
      if (g + c * h).is_zero():
        return "by guard equality %r = 0" % (h,)
    # constant multiple
    (k, v) = next(iter(h.t.items()))
    if k in g.t:
      c = g.t[k] / v
      if (g - h * c).is_zero():
        return "by %s * guard equality" % c
  return None


def is_zero_mod(goal, modulus, facts=()):
  """goal == 0 (mod modulus): goal is a polynomial multiple of modulus (single atom modulus)."""
  g = normalise(goal, list(facts))
  if g.is_zero():
    return True
  a = modulus.as_atom()
  if a is None:
    return False
  # every monomial must contain the modulus atom
  return all(any(b == a for b, _ in k) for k in g.t)


def divides(e, n, facts, depth=0):
  """Reason why e | n under the facts, or None."""
  if not isinstance(e, Poly) or not isinstance(n, Poly):
    return None
  e = normalise(e, facts)
  n = normalise(n, facts)
  if e == n:
    return "e is n"
  ei = e.as_int()
  if ei is not None:
    if ei in (1, -1):
      return "unit"
    for f in facts:
      if f[0] == "cmp" and f[1] == "Eq" and isinstance(f[2], Poly) and isinstance(f[3], Poly):
        for a, b in ((f[2], f[3]), (f[3], f[2])):
          if b.is_zero() and normalise(a, facts) == Poly.atom(Atom("mod", n, e)):
            return "guard n %% %d == 0" % ei
    return None
  a = e.as_atom()
  if a is not None:
    if a.kind == "gcd" and any(normalise(x, facts) == n for x in a.args if isinstance(x, Poly)):
      return "gcd(_, n) | n"
    if a.kind == "fdiv" and normalise(a.args[0], facts) == n and depth < 3:
      w = divides(a.args[1], n, facts, depth + 1)
      if w:
        return "n // d with d | n [%s]" % w
  return None


def cmp_facts(facts):
  return [f for f in facts if f[0] == "cmp" and isinstance(f[2], Poly) and isinstance(f[3], Poly)]


def known_lt(a, b, facts, strict=True):
  """Is a < b (or a <= b) literally among the facts (up to mirrored forms)?"""
  for f in cmp_facts(facts):
    op, x, y = f[1], f[2], f[3]
    if strict:
      if (op == "Lt" and x == a and y == b) or (op == "Gt" and x == b and y == a):
        return True
      # a <= b-1 / a+1 <= b
      if (op == "LtE" and x == a and (y - b + 1).is_zero()) or (op == "GtE" and y == a and (x - b + 1).is_zero()):
        return True
      if (op == "LtE" and (x - a - 1).is_zero() and y == b) or (op == "GtE" and (y - a - 1).is_zero() and x == b):
        return True
    else:
      if (op in ("Lt", "LtE", "Eq") and x == a and y == b) or (op in ("Gt", "GtE", "Eq") and x == b and y == a):
        return True
  # constants
  ai, bi = a.as_int(), b.as_int()
  if ai is not None and bi is not None:
    return ai < bi if strict else ai <= bi
  return False


def known_ne(a, b, facts):
  for f in cmp_facts(facts):
    if f[1] == "NotEq" and ((f[2] == a and f[3] == b) or (f[2] == b and f[3] == a)):
      return True
  return known_lt(a, b, facts) or known_lt(b, a, facts)


# ------------------------------------------------------------------ tiny linear-arithmetic prover
def linear_facts(facts):
  """Integer facts as polynomials known to be >= 0."""
  out = []
  for f in facts:
    if f[0] != "cmp" or not isinstance(f[2], Poly) or not isinstance(f[3], Poly):
      continue
    a, b = f[2], f[3]
    op = f[1]
    if op == "LtE":
      out.append(b - a)
    elif op == "Lt":
      out.append(b - a - 1)
    elif op == "GtE":
      out.append(a - b)
    elif op == "Gt":
      out.append(a - b - 1)
    elif op == "Eq":
      out.append(a - b)
      out.append(b - a)
  return out


def prove_nonneg(goal, nonneg, max_mult=4):
  """Is goal >= 0 a nonnegative integer combination of the given polynomials (each >= 0) plus a constant >= 0?
  Exhaustive search over small multipliers (complete for the goals used here)."""
  import itertools
  nonneg = [p for p in nonneg if not p.is_zero()][:8]
  g = goal
  if g.is_const():
    return g.constval() >= 0, "constant"
  for lam in itertools.product(range(max_mult + 1), repeat=len(nonneg)):
    r = g
    for l, p in zip(lam, nonneg):
      if l:
        r = r - p * l
    if r.is_const() and r.constval() >= 0:
      return True, "goal = %s + %s" % (r.constval(), " + ".join("%d*(%r)" % (l, p) for l, p in zip(lam, nonneg) if l))
  return False, "no nonnegative combination of the path facts proves %r >= 0" % (goal,)
