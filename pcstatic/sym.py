"""Symbolic path walker (DESIGN 2.2/2.3).

Walks one function of /repo's AST, forking at every `if`, executing loop bodies once
under havoc + checked invariants, and records *events* (returns, stores, attribute
writes, calls) together with the facts that dominate them.  Nothing is executed: all
values are polynomials over opaque atoms.
"""
from __future__ import annotations
import ast, itertools
from fractions import Fraction
from .poly import Poly, Atom, P, lift
from .core import Incomplete

MAX_PATHS = 60000


class Const:
  __slots__ = ("v",)

  def __init__(self, v):
    self.v = v

  def __repr__(self):
    return "Const(%r)" % (self.v,)

  def __eq__(self, o):
    return isinstance(o, Const) and type(self.v) is type(o.v) and self.v == o.v

  def __hash__(self):
    return hash(("Const", repr(self.v)))


class Seq:
  __slots__ = ("items", "kind")

  def __init__(self, items, kind="tuple"):
    self.items = list(items)
    self.kind = kind

  def __repr__(self):
    return "Seq%s" % (self.items,)

  def __eq__(self, o):
    return isinstance(o, Seq) and self.items == o.items

  def __hash__(self):
    return hash(("Seq", tuple(map(repr, self.items))))


NONE = Const(None)
TRUE = Const(True)
FALSE = Const(False)


def as_poly(v):
  """Value -> Poly (constants lifted, sequences/strings wrapped as literal atoms)."""
  if isinstance(v, Poly):
    return v
  if isinstance(v, Const):
    if isinstance(v.v, bool):
      return Poly.const(int(v.v))
    if isinstance(v.v, int):
      return Poly.const(v.v)
    return P("lit", repr(v.v))
  if isinstance(v, Seq):
    return P("seq", *[as_poly(x) for x in v.items])
  if isinstance(v, tuple):  # condition tree
    return P("cond", repr(v))
  raise Incomplete("unmodelled value %r" % (v,))


# ------------------------------------------------------------------ smart constructors
def mk(kind, *args):
  """Builds an atom application with local simplification."""
  a = [x if not isinstance(x, (Const, Seq)) else as_poly(x) for x in args]
  ints = [x.as_int() if isinstance(x, Poly) else None for x in a]
  if kind == "shr":
    if ints[1] == 0:
      return a[0]
    if ints[0] is not None and ints[1] is not None and ints[1] >= 0:
      return Poly.const(ints[0] >> ints[1])
  if kind == "shl":
    if ints[1] == 0:
      return a[0]
    if ints[1] is not None and 0 <= ints[1] <= 4096:
      return a[0] * (1 << ints[1])
    if ints[0] is not None:
      return mk("pow", Poly.const(2), a[1]) * ints[0]        # c << e  ==  c * 2**e : one normal form for both spellings
  if kind == "fdiv":
    if ints[1] == 1:
      return a[0]
    if ints[0] is not None and ints[1]:
      return Poly.const(ints[0] // ints[1])
  if kind == "mod":
    if ints[1] == 1:
      return Poly.const(0)
    if ints[0] is not None and ints[1]:
      return Poly.const(ints[0] % ints[1])
  if kind == "pow":
    if ints[1] is not None and 0 <= ints[1] <= 16:
      return a[0] ** ints[1]
    if ints[0] is not None and ints[1] is not None and 0 <= ints[1] <= 8192:
      return Poly.const(ints[0] ** ints[1])
  if kind == "bitlen" and ints[0] is not None:
    return Poly.const(int(ints[0]).bit_length())
  if kind == "isqrt" and ints[0] is not None and ints[0] >= 0:
    import math
    return Poly.const(math.isqrt(ints[0]))
  if kind in ("gcd", "band", "bor", "bxor"):
    a = sorted(a, key=repr)
  if kind == "reversed" and len(a) == 1 and isinstance(a[0], Poly) and a[0].as_atom() is not None and a[0].as_atom().kind == "range":
    ra = a[0].as_atom().args
    one = Poly.const(1)
    if len(ra) == 1:
      return Poly.atom(Atom("range", ra[0] - 1, Poly.const(-1), Poly.const(-1)))      # reversed(range(n)) = range(n-1, -1, -1)
    if len(ra) == 2 or (len(ra) == 3 and ra[2] == one):
      return Poly.atom(Atom("range", ra[1] - 1, ra[0] - 1, Poly.const(-1)))
  if kind == "idx":
    base = a[0].as_atom() if isinstance(a[0], Poly) else None
    if base is not None and base.kind == "seq" and ints[1] is not None and -len(base.args) <= ints[1] < len(base.args):
      return base.args[ints[1]]
    if base is not None and base.kind == "dictlit":
      for i in range(0, len(base.args), 2):
        if base.args[i] == a[1]:
          return base.args[i + 1]
    if base is not None and base.kind == "map" and len(base.args) == 3 and hasattr(base.args[0], "deep_subst"):
      elt, bv, src = base.args
      return rebuild(elt.deep_subst(bv, a[1]))   # map(elt(bv), bv, src)[i] = elt(i)
    if base is not None and base.kind == "upd" and len(base.args) == 3 and isinstance(a[1], Poly) and base.args[1] == a[1]:
      return base.args[2]                         # upd(b, k, v)[k] = v (read-back of the key just written)
  return Poly.atom(Atom(kind, *a))


_MIRROR = {"Eq": "Eq", "NotEq": "NotEq", "Lt": "Gt", "Gt": "Lt", "LtE": "GtE", "GtE": "LtE", "Is": "Is", "IsNot": "IsNot"}


def _same_value(a, b):
  if isinstance(a, Const) and isinstance(b, Const):
    return type(a.v) is type(b.v) and a.v == b.v
  if isinstance(a, Poly) and isinstance(b, Poly):
    return a == b
  if isinstance(a, Seq) and isinstance(b, Seq):
    return a.kind == b.kind and repr(a) == repr(b)
  return False


def _is_literal(x):
  if isinstance(x, Const):
    return True
  if isinstance(x, Seq):
    return all(_is_literal(i) for i in x.items)
  return isinstance(x, Poly) and x.is_const()


def _cond_polys(c):
  if isinstance(c, Poly):
    yield c
  elif isinstance(c, (tuple, list)):
    for x in c:
      yield from _cond_polys(x)
  elif isinstance(c, Seq):
    for x in c.items:
      yield from _cond_polys(x)


def _is_alias(x):
  """x is `container[index]` of a container that is a parameter / loop-carried value (an element that lives on in its container), not a fresh local list"""
  a = x.as_atom() if isinstance(x, Poly) else None
  if a is None or a.kind != "idx" or len(a.args) != 2:
    return False
  b = as_poly(a.args[0]).as_atom()
  seen = 0
  while b is not None and b.kind in ("idx", "upd") and seen < 8:
    b = as_poly(b.args[0]).as_atom()
    seen += 1
  return b is not None and b.kind in ("param", "sym")


def _listlike(x):
  if isinstance(x, Seq):
    return x.kind == "list"
  a = x.as_atom() if isinstance(x, Poly) else None
  return a is not None and a.kind in ("map", "listrep", "concat")


def rebuild(p):
  """Re-normalises every atom bottom-up through mk() (used after substitution)."""
  if not isinstance(p, Poly):
    return p
  r = Poly()
  for k, v in p.t.items():
    term = Poly.const(v)
    for b, e in k:
      term = term * (rebuild_atom(b) ** e)
    r = r + term
  return r


def rebuild_atom(a):
  if not a.args or not any(isinstance(x, (Poly, Atom)) for x in a.args):
    return Poly.atom(a)
  na = []
  for x in a.args:
    if isinstance(x, Poly):
      na.append(rebuild(x))
    elif isinstance(x, Atom):
      rx = rebuild_atom(x)
      ra = rx.as_atom() if isinstance(rx, Poly) else None
      na.append(ra if ra is not None else rx)   # bound variables and other atom-valued arguments stay atoms
    else:
      na.append(x)
  if a.kind in ("map",):
    return Poly.atom(Atom(a.kind, *na))
  try:
    return mk(a.kind, *na)
  except Exception:
    return Poly.atom(Atom(a.kind, *na))


def subst_all(p, a, q):
  """Substitute atom a := q everywhere (also nested) and re-normalise."""
  return rebuild(p.deep_subst(a, q))


# ------------------------------------------------------------------ conditions
NEG = {"Eq": "NotEq", "NotEq": "Eq", "Lt": "GtE", "LtE": "Gt", "Gt": "LtE", "GtE": "Lt",
       "Is": "IsNot", "IsNot": "Is", "In": "NotIn", "NotIn": "In"}


FILTER_CONDS = {}  # repr(list of condition trees) -> the list, for every filtered comprehension met (filter atoms carry the repr)
ITE_CONDS = {}    # repr(condition tree) -> condition tree of every conditional expression met (ite atoms carry the repr)


def facts_of(c, pol=True):
  """Atomic facts implied by condition tree c having truth value pol."""
  k = c[0]
  if k == "not":
    return facts_of(c[1], not pol)
  if k == "and":
    if pol:
      return [f for x in c[1] for f in facts_of(x, True)]
    if len(c[1]) == 1:
      return facts_of(c[1][0], False)
    return [("nor", tuple(c[1]))] if False else []
  if k == "or":
    if not pol:
      return [f for x in c[1] for f in facts_of(x, False)]
    if len(c[1]) == 1:
      return facts_of(c[1][0], True)
    return []
  if k == "cmp":
    return [("cmp", c[1] if pol else NEG[c[1]], c[2], c[3])]
  if k == "truthy":
    v = c[1]
    if isinstance(v, Const):
      return []
    if isinstance(v, Poly):
      a = v.as_atom()
      if a is None or a.kind in ("mod", "fdiv", "shr", "shl", "band", "bor", "bxor", "bitlen",
                                 "len", "isqrt", "gcd", "pow", "abs", "intparam"):
        return [("cmp", "NotEq" if pol else "Eq", v, Poly.const(0))]
    return [("truthy" if pol else "falsy", v)]
  if k == "square":
    return [("square" if pol else "nonsquare", c[1])]
  if k == "const":
    return []
  if k == "opaque":
    return [("opaque", c[1], pol)]
  return []


def cond_atoms(c, out=None):
  """All atomic sub-conditions of a condition tree."""
  out = [] if out is None else out
  if c[0] in ("and", "or"):
    for x in c[1]:
      cond_atoms(x, out)
  elif c[0] == "not":
    cond_atoms(c[1], out)
  else:
    out.append(c)
  return out


# ------------------------------------------------------------------ state / events
def negate_fact(f):
  if f[0] == "truthy":
    return ("falsy", f[1])
  if f[0] == "falsy":
    return ("truthy", f[1])
  if f[0] == "square":
    return ("nonsquare", f[1])
  if f[0] == "nonsquare":
    return ("square", f[1])
  if f[0] == "cmp":
    return ("cmp", NEG[f[1]], f[2], f[3])
  if f[0] == "opaque":
    return ("opaque", f[1], not f[2])
  return None


def contradicts(facts, new):
  """Is one of the new facts the literal negation of a known fact (infeasible branch)?"""
  if not new:
    return False
  keys = {repr(f) for f in facts}
  for f in new:
    nf = negate_fact(f)
    if nf is not None and repr(nf) in keys:
      return True
    if f[0] == "cmp" and f[1] in ("Is", "Eq") and isinstance(f[3], Const) and f[3].v is None:
      # x is None contradicts truthy(x)
      if repr(("truthy", f[2])) in keys:
        return True
  return False


def _truthiness(v, st):
  """True / False when value v is definitely truthy / falsy in state st, else None."""
  if isinstance(v, Const):
    return bool(v.v)
  if isinstance(v, Seq):
    return bool(v.items)
  if isinstance(v, Poly):
    i = v.as_int()
    if i is not None:
      return i != 0
    for f in st.facts:
      if f[0] in ("truthy", "falsy") and isinstance(f[1], Poly) and f[1] == v:
        return f[0] == "truthy"
  return None


def _mentions_loop_syms(v, head, pre):
  """Does value v mention atoms created for this loop's iteration (not present before the loop)?"""
  if not isinstance(v, Poly):
    return False
  pre_atoms = set()
  for x in pre.env.values():
    if isinstance(x, Poly):
      pre_atoms |= x.all_atoms()
  return any(a.kind in ("sym", "bv") and a not in pre_atoms for a in v.all_atoms())


class State:
  __slots__ = ("env", "facts", "pc", "last_rhs", "depth", "tags", "trace")

  def __init__(self, env=None, facts=None, pc=None, last_rhs=None, depth=0, tags=None, trace=None):
    self.trace = trace if trace is not None else []  # indices into Walker.events along this path
    self.env = env if env is not None else {}
    self.facts = facts if facts is not None else []
    self.pc = pc if pc is not None else []      # list of (condtree, polarity, test node)
    self.last_rhs = last_rhs if last_rhs is not None else {}
    self.depth = depth
    self.tags = tags if tags is not None else []  # loop context stack

  def fork(self):
    return State(dict(self.env), list(self.facts), list(self.pc), dict(self.last_rhs), self.depth,
                 list(self.tags), list(self.trace))

  def assume(self, c, pol, node=None):
    self.pc.append((c, pol, node))
    self.facts.extend(facts_of(c, pol))


class Event:
  __slots__ = ("kind", "node", "data", "state", "pathid")

  def __init__(self, kind, node, data, state, pathid=0):
    self.kind = kind
    self.node = node
    self.data = data
    self.state = state
    self.pathid = pathid

  @property
  def facts(self):
    return self.state.facts


PURE_EXT = {
    "gmpy2.mpz": "id", "int": "id", "gmpy2.isqrt": "isqrt", "math.isqrt": "isqrt",
    "gmpy2.gcd": "gcd", "math.gcd": "gcd", "gmpy2.invert": "invert", "abs": "abs",
    "gmpy2.bit_length": "bitlen", "gmpy2.f_mod_2exp": "fmod2exp", "gmpy2.popcount": "popcount",
    "gmpy2.is_prime": "is_prime", "gmpy2.next_prime": "next_prime",
}
MUTATORS = {"append", "add", "update", "extend", "insert", "pop", "remove", "sort", "clear",
            "setdefault", "popitem", "discard", "reverse"}


class Walker:
  """Symbolically walks one function."""

  def __init__(self, repo, func, call_model=None, int_params=(), unroll_const_loops=False,
               max_paths=MAX_PATHS):
    self.repo = repo
    self.func = func
    self.module = func.module
    self.fresh = itertools.count()
    self.events = []
    self.terminals = []   # (kind, value, state)
    self.call_model = call_model
    self.invariants = {}  # loop node id -> {var: hyp poly}
    self.unmodelled = []  # notes about constructs outside the subset
    self.paths = 0
    self.int_params = set(int_params)
    self.unroll = unroll_const_loops
    self.max_paths = max_paths
    self.loop_info = {}   # id(loop node) -> dict
    self.quiet = 0        # >0: do not record events (invariant trial runs)
    self.track_attr = False

  # ---------------------------------------------------------------- helpers
  def sym(self, name):
    return P("sym", "%s#%d" % (name, next(self.fresh)))

  def note(self, msg, node=None):
    self.unmodelled.append("%s%s" % (msg, (" @" + ast.unparse(node)[:60]) if node is not None else ""))

  def emit(self, kind, node, st, **data):
    if self.quiet:
      return None
    ev = Event(kind, node, data, st.fork(), self.paths)
    st.trace.append(len(self.events))
    self.events.append(ev)
    return ev

  def run(self, params=None):
    st = State()
    fn = self.func.node
    # nodes lexically inside a loop or comprehension (appends there are summarised by the loop machinery, appends in straight-line code are folded)
    self._in_loop_ids = {id(x) for l_ in ast.walk(fn) if isinstance(l_, (ast.For, ast.While, ast.ListComp, ast.SetComp, ast.DictComp, ast.GeneratorExp))
                         for x in ast.walk(l_)}
    allargs = list(fn.args.posonlyargs) + list(fn.args.args) + list(fn.args.kwonlyargs)
    for a in allargs:
      name = a.arg
      if params and name in params:
        st.env[name] = params[name]
      else:
        st.env[name] = P("param", name)
    if fn.args.vararg:
      st.env[fn.args.vararg.arg] = P("param", fn.args.vararg.arg)
    if fn.args.kwarg:
      st.env[fn.args.kwarg.arg] = P("param", fn.args.kwarg.arg)
    for kind, val, s in self.block(fn.body, st):
      if kind == "fall":
        self.terminals.append(("return", NONE, s))
        self.emit("return", None, s, value=NONE, implicit=True)
      else:
        self.terminals.append((kind, val, s))
    self._append_stores()
    return self.terminals

  def _append_stores(self):
    """`res = []; for i, x in enumerate(xs): ... res.append(v)` with exactly one append on every pass fills res[i] = v: such appends are additionally
    reported as (synthetic) store events at the pass index, so that rules about element stores see both spellings.  The events go to the end of the
    event list (path traces keep pointing at the original append)."""
    extra = []
    for li in self.loop_info.values():
      if not isinstance(li["node"], ast.For):
        continue
      for vis in li.get("visits", []):
        paths = [bp for bp in li.get("body_paths", []) if bp[4] is vis]
        if not paths or any(bp[0] not in ("fall", "continue") for bp in paths):
          continue
        for v in li["modified"]:
          pre = vis.get("pre_env", {}).get(v)
          hv = vis["head"].env.get(v)
          if not (isinstance(pre, Seq) and pre.kind == "list" and not pre.items) or not isinstance(hv, Poly):
            continue
          per_path = []
          for bp in paths:
            apps = [self.events[i_] for i_ in bp[2].trace[bp[3]:] if self.events[i_].kind == "mutate" and self.events[i_].data["method"] == "append"
                    and isinstance(self.events[i_].data.get("target"), ast.Name) and self.events[i_].data["target"].id == v]
            per_path.append(apps)
          if any(len(a_) != 1 for a_ in per_path):
            continue
          seen = set()
          for apps in per_path:
            e = apps[0]
            if id(e) in seen:
              continue
            seen.add(id(e))
            tgt = ast.copy_location(ast.Subscript(value=ast.Name(id=v, ctx=ast.Load()), slice=ast.Constant(value=0), ctx=ast.Store()), e.node)
            extra.append(Event("store", e.node, {"base": hv, "index": as_poly(vis["k"]), "value": e.data["args"][0], "target": tgt, "synthetic": True}, e.state, e.pathid))
    # two nested loops filling one list: `L = []; for a in A: for b in B: L.append(f(a, b))` stores f at index k_outer * len(B) + k_inner
    def count_of(vis_):
      it_ = vis_["iter"]
      a_ = it_.as_atom() if isinstance(it_, Poly) else None
      if a_ is None:
        return None
      if a_.kind == "range":
        r_ = [as_poly(x_) for x_ in a_.args]
        if len(r_) == 1:
          return r_[0]
        if len(r_) == 2 or (len(r_) == 3 and r_[2].as_int() == 1):
          return r_[1] - r_[0]
        return None
      if a_.kind in ("enumerate", "reversed", "sorted", "list") and a_.args:
        return mk("len", as_poly(a_.args[0]))
      if a_.kind in ("param", "sym", "map", "attr", "slice"):
        return mk("len", it_)
      return None
    for lo_ in self.loop_info.values():
      if not isinstance(lo_["node"], ast.For):
        continue
      for vo in lo_.get("visits", []):
        opaths = [bp for bp in lo_.get("body_paths", []) if bp[4] is vo]
        if not opaths or any(bp[0] not in ("fall", "continue") for bp in opaths):
          continue
        for v in lo_["modified"]:
          pre = vo.get("pre_env", {}).get(v)
          hv = vo["head"].env.get(v)
          if not (isinstance(pre, Seq) and pre.kind == "list" and not pre.items) or not isinstance(hv, Poly):
            continue
          # no direct append in the outer body; exactly one inner loop (directly nested) appends once per pass
          direct = any(self.events[i_].kind == "mutate" and self.events[i_].data["method"] in MUTATORS and isinstance(self.events[i_].data.get("target"), ast.Name)
                       and self.events[i_].data["target"].id == v for bp in opaths for i_ in bp[2].trace[bp[3]:])
          if direct:
            continue
          inners = [li_ for li_ in self.loop_info.values() if li_ is not lo_ and isinstance(li_["node"], ast.For) and any(x_ is li_["node"] for x_ in ast.walk(lo_["node"]))
                    and v in li_["modified"]]
          if len(inners) != 1:
            continue
          li_ = inners[0]
          for vi in li_.get("visits", []):
            if not (isinstance(vi.get("pre_env", {}).get(v), Poly) and vi["pre_env"][v] == hv):
              continue
            ipaths = [bp for bp in li_.get("body_paths", []) if bp[4] is vi]
            if not ipaths or any(bp[0] not in ("fall", "continue") for bp in ipaths):
              continue
            per_path = [[self.events[i_] for i_ in bp[2].trace[bp[3]:] if self.events[i_].kind == "mutate" and self.events[i_].data["method"] == "append"
                         and isinstance(self.events[i_].data.get("target"), ast.Name) and self.events[i_].data["target"].id == v] for bp in ipaths]
            n_in = count_of(vi)
            if n_in is None or any(len(a_) != 1 for a_ in per_path) or as_poly(vo["k"]).as_atom() in n_in.all_atoms():
              continue
            seen = set()
            for apps in per_path:
              e = apps[0]
              if id(e) in seen:
                continue
              seen.add(id(e))
              tgt = ast.copy_location(ast.Subscript(value=ast.Name(id=v, ctx=ast.Load()), slice=ast.Constant(value=0), ctx=ast.Store()), e.node)
              extra.append(Event("store", e.node, {"base": hv, "index": as_poly(vo["k"]) * n_in + as_poly(vi["k"]), "value": e.data["args"][0], "target": tgt, "synthetic": True},
                                 e.state, e.pathid))
    self.events.extend(extra)

  # ---------------------------------------------------------------- expressions
  def ev(self, e, st):
    m = getattr(self, "ev_" + type(e).__name__, None)
    if m is None:
      self.note("expression %s" % type(e).__name__, e)
      return self.sym("expr")
    return m(e, st)

  def ev_Constant(self, e, st):
    v = e.value
    if isinstance(v, bool) or v is None:
      return Const(v)
    if isinstance(v, int):
      return Poly.const(v)
    return Const(v)

  def ev_Name(self, e, st):
    if e.id in st.env:
      return st.env[e.id]
    if e.id in ("True", "False", "None"):
      return Const({"True": True, "False": False, "None": None}[e.id])
    return self.global_ref(e)

  def global_ref(self, e):
    r = self.repo.resolve_expr(self.module, e)
    if isinstance(r, tuple) and r[0] in ("const", "clsconst"):
      owner, name = r[1], r[2]
      node = owner.consts[name]
      v = self.try_const(node, owner if r[0] == "const" else owner.module)
      if v is not None:
        return v
      oname = owner.short if r[0] == "const" else owner.module.short + "." + owner.name
      return P("ref", "%s.%s" % (oname, name))
    if isinstance(r, tuple) and r[0] == "ext":
      return P("ref", r[1])
    if r is not None and hasattr(r, "name"):
      return P("ref", getattr(r, "where", None) or getattr(r, "short", None) or r.name)
    return P("glob", ast.unparse(e))

  def try_const(self, node, module):
    """Small literal folder for module constants used as values (ints, None, tuples)."""
    if isinstance(node, ast.Constant):
      return self.ev_Constant(node, None)
    if isinstance(node, ast.Tuple):
      items = [self.try_const(x, module) for x in node.elts]
      if all(i is not None for i in items):
        return Seq(items)
      return None
    if isinstance(node, ast.UnaryOp) and isinstance(node.op, ast.USub):
      v = self.try_const(node.operand, module)
      if isinstance(v, Poly):
        return -v
    if isinstance(node, ast.BinOp):
      l = self.try_const(node.left, module)
      r = self.try_const(node.right, module)
      if isinstance(l, Poly) and isinstance(r, Poly) and l.as_int() is not None and r.as_int() is not None:
        return self.binop(node.op, l, r, node)
    return None

  def ev_Attribute(self, e, st):
    # dotted reference through imports?
    x = e
    while isinstance(x, ast.Attribute):
      x = x.value
    if isinstance(x, ast.Name) and x.id not in st.env:
      return self.global_ref(e)
    base = self.ev(e.value, st)
    if self.track_attr:
      self.emit("attr", e, st, base=base, attr=e.attr)
    return mk("attr", as_poly(base), e.attr)

  def ev_Tuple(self, e, st):
    return Seq([self.ev(x, st) for x in e.elts], "tuple")

  def ev_List(self, e, st):
    return Seq([self.ev(x, st) for x in e.elts], "list")

  def ev_Set(self, e, st):
    return mk("setlit", *[as_poly(self.ev(x, st)) for x in e.elts])

  def ev_Dict(self, e, st):
    if not e.keys:
      return mk("emptydict")
    if all(k is not None for k in e.keys) and len(e.keys) <= 64:
      items = []
      for k, v in zip(e.keys, e.values):
        items.append(as_poly(self.ev(k, st)))
        items.append(as_poly(self.ev(v, st)))
      return Poly.atom(Atom("dictlit", *items))
    return self.sym("dict")

  def ev_UnaryOp(self, e, st):
    if isinstance(e.op, ast.Not):
      return ("not", self.cond(e.operand, st))
    v = self.ev(e.operand, st)
    if isinstance(e.op, ast.USub):
      return -as_poly(v)
    if isinstance(e.op, ast.UAdd):
      return as_poly(v)
    return mk("binv", as_poly(v))

  def ev_BoolOp(self, e, st):
    return self.cond(e, st)

  def ev_Compare(self, e, st):
    return self.cond(e, st)

  def ev_IfExp(self, e, st):
    c = self.cond(e.test, st)
    a = self.ev(e.body, st)
    b = self.ev(e.orelse, st)
    # `x if x < y else y` is min(x, y), `x if x > y else y` is max(x, y) (either operand order, strict or not: the values coincide on ties)
    if isinstance(c, tuple) and c and c[0] == "cmp" and c[1] in ("Lt", "LtE", "Gt", "GtE") and isinstance(a, (Poly, int)) and isinstance(b, (Poly, int)) \
        and isinstance(c[2], (Poly, int)) and isinstance(c[3], (Poly, int)):
      l_, r_, pa_, pb_ = as_poly(c[2]), as_poly(c[3]), as_poly(a), as_poly(b)
      if (l_ == pa_ and r_ == pb_) or (l_ == pb_ and r_ == pa_):
        pick_left = (l_ == pa_)
        less = c[1] in ("Lt", "LtE")
        return mk("min" if less == pick_left else "max", pa_, pb_)
    ITE_CONDS[repr(c)] = c
    return mk("ite", P("cond", repr(c)), as_poly(a), as_poly(b))

  def ev_JoinedStr(self, e, st):
    parts = []
    for v in e.values:
      if isinstance(v, ast.FormattedValue):
        parts.append(as_poly(self.ev(v.value, st)))
      else:
        parts.append(P("lit", repr(v.value)))
    return mk("fstr", *parts)

  def ev_Lambda(self, e, st):
    return self.sym("lambda")

  def ev_Yield(self, e, st):
    v = self.ev(e.value, st) if e.value is not None else Const(None)
    self.emit("yield", e, st, value=v)
    return Const(None)

  def ev_YieldFrom(self, e, st):
    v = self.ev(e.value, st)
    self.emit("yield", e, st, value=v, star=True)
    return Const(None)

  def ev_Starred(self, e, st):
    return mk("star", as_poly(self.ev(e.value, st)))

  def ev_NamedExpr(self, e, st):
    v = self.ev(e.value, st)
    st.env[e.target.id] = v
    return v

  def binop(self, op, l, r, node=None):
    if isinstance(op, ast.Add):
      return l + r
    if isinstance(op, ast.Sub):
      return l - r
    if isinstance(op, ast.Mult):
      return l * r
    if isinstance(op, ast.Pow):
      return mk("pow", l, r)
    if isinstance(op, ast.FloorDiv):
      return mk("fdiv", l, r)
    if isinstance(op, ast.Mod):
      return mk("mod", l, r)
    if isinstance(op, ast.RShift):
      return mk("shr", l, r)
    if isinstance(op, ast.LShift):
      return mk("shl", l, r)
    if isinstance(op, ast.BitAnd):
      return mk("band", *sorted([l, r], key=repr))
    if isinstance(op, ast.BitOr):
      return mk("bor", *sorted([l, r], key=repr))
    if isinstance(op, ast.BitXor):
      return mk("bxor", *sorted([l, r], key=repr))
    if isinstance(op, ast.Div):
      ri = r.as_int()
      if ri:
        return l * Fraction(1, ri) if False else mk("tdiv", l, r)
      return mk("tdiv", l, r)
    return mk("binop", P("lit", type(op).__name__), l, r)

  def ev_BinOp(self, e, st):
    l = self.ev(e.left, st)
    r = self.ev(e.right, st)
    if isinstance(e.op, ast.Mod) and isinstance(l, Const) and isinstance(l.v, str):
      args = r.items if isinstance(r, Seq) else [r]
      return mk("strfmt", P("lit", repr(l.v)), *[as_poly(x) for x in args])
    if isinstance(e.op, ast.Add) and isinstance(l, Seq) and isinstance(r, Seq):
      return Seq(l.items + r.items, l.kind)
    if isinstance(e.op, ast.Mult) and isinstance(l, Seq) and l.kind == "list":
      return mk("listrep", as_poly(l), as_poly(r))
    if isinstance(e.op, ast.Mult) and isinstance(r, Seq) and r.kind == "list" and not isinstance(l, Seq):
      return mk("listrep", as_poly(r), as_poly(l))          # n * [x] = [x] * n
    if isinstance(e.op, ast.Add) and isinstance(l, Const) and isinstance(r, Const) and isinstance(l.v, str) and isinstance(r.v, str):
      return Const(l.v + r.v)
    if isinstance(e.op, ast.Add) and _listlike(l) and _listlike(r):
      return mk("concat", as_poly(l), as_poly(r))          # list + list keeps its order (a polynomial sum would commute)
    return self.binop(e.op, as_poly(l), as_poly(r), e)

  def ev_Subscript(self, e, st):
    base = self.ev(e.value, st)
    if isinstance(e.slice, ast.Slice):
      sl = e.slice
      parts = [as_poly(self.ev(x, st)) if x is not None else P("lit", "None")
               for x in (sl.lower, sl.upper, sl.step)]
      return mk("slice", as_poly(base), *parts)
    idx = self.ev(e.slice, st)
    if isinstance(base, Seq):
      i = as_poly(idx).as_int() if not isinstance(idx, Seq) else None
      if i is not None and -len(base.items) <= i < len(base.items):
        return base.items[i]
    return mk("idx", as_poly(base), as_poly(idx))

  def comp_value(self, e, st, elt_nodes):
    """[elt for t in it (if c)] -> map/filter atoms."""
    if len(e.generators) != 1:
      return self.sym("comp")
    g = e.generators[0]
    it = self.ev(g.iter, st)
    sub = st.fork()
    bv = Atom("bv", "b%d" % next(self.fresh))
    src = self.iter_source(it)
    self.bind_iter_target(g.target, it, sub, Poly.atom(bv), node=None)
    if g.ifs:
      conds = [self.cond(c, sub) for c in g.ifs]
      FILTER_CONDS[repr(conds)] = conds
      src_f = mk("filter", as_poly(src[0]) if src else as_poly(it), P("cond", repr(conds)))
      # elements of a filtered list are not index-aligned with the source
      sub2 = st.fork()
      bv2 = Atom("bv", "b%d" % next(self.fresh))
      self.bind_iter_target(g.target, src_f, sub2, Poly.atom(bv2), node=None)
      vals = [as_poly(self.ev(x, sub2)) for x in elt_nodes]
      elt = vals[0] if len(vals) == 1 else P("seq", *vals)
      return Poly.atom(Atom("map", elt, bv2, as_poly(src_f)))
    vals = [as_poly(self.ev(x, sub)) for x in elt_nodes]
    elt = vals[0] if len(vals) == 1 else P("seq", *vals)
    ra_ = as_poly(it).as_atom() if not isinstance(it, (Seq, Const, tuple)) else None
    if isinstance(e, ast.ListComp) and len(vals) == 1 and ra_ is not None and ra_.kind == "range" and len(ra_.args) == 1 and \
       (elt.as_int() is not None or elt == as_poly(NONE)):
      return mk("listrep", P("seq", elt), as_poly(ra_.args[0]))          # [c for _ in range(n)] is [c] * n for a number / None
    return Poly.atom(Atom("map", elt, bv, as_poly(it)))

  def ev_ListComp(self, e, st):
    return self.comp_value(e, st, [e.elt])

  def ev_GeneratorExp(self, e, st):
    return self.comp_value(e, st, [e.elt])

  def ev_SetComp(self, e, st):
    return mk("set", self.comp_value(e, st, [e.elt]))

  def ev_DictComp(self, e, st):
    return mk("dictof", self.comp_value(e, st, [e.key, e.value]))

  # ---- calls
  def call_name(self, f):
    """Canonical name of the callee: 'ext:gmpy2.isqrt', 'repo:rsa_util.FermatFactor', 'meth:append', ..."""
    r = self.repo.resolve_expr(self.module, f)
    if r is not None and not isinstance(r, tuple) and hasattr(r, "where"):
      return "repo:" + r.where
    if r is not None and not isinstance(r, tuple) and hasattr(r, "methods"):
      return "cls:" + r.module.short + "." + r.name
    if isinstance(f, ast.Attribute):
      rv = self.repo.resolve_expr(self.module, f.value)
      if isinstance(rv, tuple) and rv[0] in ("const", "clsconst"):
        return "meth:" + f.attr
    if isinstance(r, tuple) and r[0] == "ext":
      return "ext:" + r[1]
    if isinstance(f, ast.Name):
      return "ext:" + f.id
    if isinstance(f, ast.Attribute):
      return "meth:" + f.attr
    return "?"

  def ev_Call(self, e, st):
    name = self.call_name(e.func)
    # a local variable shadowing (e.g. a parameter called like a module) -> method call
    if isinstance(e.func, ast.Attribute):
      x = e.func
      while isinstance(x, ast.Attribute):
        x = x.value
      if isinstance(x, ast.Name) and x.id in st.env:
        name = "meth:" + e.func.attr
      elif not isinstance(x, ast.Name):
        name = "meth:" + e.func.attr
    elif isinstance(e.func, ast.Name) and e.func.id in st.env:
      name = "local:" + e.func.id
    args = [self.ev(a, st) for a in e.args]
    kwargs = {k.arg: self.ev(k.value, st) for k in e.keywords if k.arg}
    recv = None
    if name.startswith("meth:"):
      recv = self.ev(e.func.value, st)
      # super().__init__ etc.
    val = None
    if self.call_model is not None:
      val = self.call_model(self, name, args, kwargs, e, st, recv)
    if val is None:
      val = self.default_call(name, args, kwargs, e, st, recv)
    self.emit("call", e, st, name=name, args=args, kwargs=kwargs, recv=recv, value=val)
    return val

  def default_call(self, name, args, kwargs, e, st, recv):
    pa = [as_poly(a) for a in args]
    if name.startswith("ext:"):
      fn = name[4:]
      k = PURE_EXT.get(fn)
      if k == "id" and pa:
        return args[0] if isinstance(args[0], Poly) else pa[0]
      if k in ("isqrt", "gcd", "invert", "abs", "bitlen", "fmod2exp", "popcount", "is_prime", "next_prime"):
        return mk(k, *pa)
      if fn == "gmpy2.is_square":
        return ("square", pa[0])
      if fn == "len":
        if isinstance(args[0], Seq):
          return Poly.const(len(args[0].items))
        return mk("len", pa[0])
      if fn == "divmod":
        return Seq([mk("fdiv", *pa), mk("mod", *pa)])
      if fn == "pow":
        if len(pa) == 3:
          return mk("powmod", *pa)
        return mk("pow", *pa)
      if fn in ("min", "max", "sum", "sorted", "reversed", "range", "enumerate", "zip", "set",
                "frozenset", "format", "str", "bool", "float", "bytes", "bytearray", "hex", "round",
                "math.sqrt", "math.log", "math.log2", "math.ceil", "math.floor", "any", "all", "iter", "next",
                "itertools.zip_longest", "isinstance", "type", "repr", "ord", "chr", "dict", "map", "filter",
                "math.exp", "math.erfc", "math.lgamma", "math.comb", "math.factorial", "id", "hash", "math.erf", "math.gamma",
                "math.pow", "math.fabs", "math.isqrt", "math.log10", "math.log1p", "math.expm1",
                "collections.defaultdict", "collections.Counter"):
        kw = [P("kw", k, as_poly(v)) for k, v in sorted(kwargs.items())]
        return mk(fn.split(".")[-1] if fn.startswith("math.") is False else fn, *(pa + kw))
      if fn in ("list", "tuple"):
        if not args:
          return Seq([], "list")
        return args[0] if isinstance(args[0], (Poly, Seq)) else pa[0]
      if fn.startswith("absl.logging") or fn.startswith("logging."):
        return NONE
      # unknown external: opaque, assumed to return a fresh value
      return mk("extcall", P("lit", fn), *pa, P("u", next(self.fresh)))
    if name.startswith("repo:") or name.startswith("cls:"):
      kw = [P("kw", k, as_poly(v)) for k, v in sorted(kwargs.items())]
      return mk("call", P("lit", name.split(":", 1)[1]), *(pa + kw))
    if name.startswith("meth:"):
      m = name[5:]
      rp = as_poly(recv) if recv is not None else P("lit", "?")
      if m == "bit_length" and not pa:
        return mk("bitlen", rp)
      if m in ("items", "keys", "values") and not pa:
        return mk(m, rp)
      if m == "get":
        return mk("get", rp, *pa)
      if m in MUTATORS:
        base = e.func.value
        if m == "extend" and len(args) == 1 and not kwargs and isinstance(args[0], Seq) and args[0].items and isinstance(base, ast.Name):
          # L.extend([x, y]) is L.append(x); L.append(y)
          for it_ in args[0].items:
            cur_ = st.env.get(base.id)
            rp_ = as_poly(cur_) if cur_ is not None else rp
            self.emit("mutate", e, st, method="append", recv=cur_ if cur_ is not None else recv, args=[it_], target=base)
            if isinstance(cur_, Seq) and cur_.kind == "list" and not isinstance(it_, tuple) and (cur_.items or id(e) not in getattr(self, "_in_loop_ids", {id(e)})):
              st.env[base.id] = Seq(list(cur_.items) + [it_], "list")
            else:
              st.env[base.id] = mk("mut", rp_, P("lit", "append"), as_poly(it_), P("u", next(self.fresh)))
          return NONE
        self.emit("mutate", e, st, method=m, recv=recv, args=args, target=base)
        if isinstance(base, ast.Name):
          cur = st.env.get(base.id)
          if m == "append" and len(args) == 1 and not kwargs and isinstance(cur, Seq) and cur.kind == "list" and not isinstance(args[0], tuple) and \
             (cur.items or id(e) not in getattr(self, "_in_loop_ids", {id(e)})):
            st.env[base.id] = Seq(list(cur.items) + [args[0]], "list")        # [a, b].append(c) is the literal list [a, b, c]
          else:
            st.env[base.id] = mk("mut", rp, P("lit", m), *pa, P("u", next(self.fresh)))
        if m in ("pop", "popitem", "setdefault", "add"):
          return mk("mcall", rp, P("lit", m), *pa, P("u", next(self.fresh)))
        return NONE
      if m in ("hexdigest", "encode", "decode", "to_bytes", "from_bytes", "lower", "upper", "strip",
               "format", "join", "split", "startswith", "endswith", "count", "index", "copy", "union",
               "intersection", "difference", "issubset", "digits", "digest", "hex", "zfill", "rjust",
               "translate", "find", "replace"):
        kw = [P("kw", k, as_poly(v)) for k, v in sorted(kwargs.items())]
        return mk("pm", rp, P("lit", m), *(pa + kw))
      # method on an object of unknown class: uninterpreted, fresh result
      kw = [P("kw", k, as_poly(v)) for k, v in sorted(kwargs.items())]
      return mk("mcall", rp, P("lit", m), *(pa + kw))
    if name.startswith("local:"):
      return mk("lcall", P("lit", name[6:]), *pa, P("u", next(self.fresh)))
    return self.sym("call")

  # ---- conditions
  def cond(self, e, st):
    if isinstance(e, ast.UnaryOp) and isinstance(e.op, ast.Not):
      return ("not", self.cond(e.operand, st))
    if isinstance(e, ast.BoolOp):
      return ("and" if isinstance(e.op, ast.And) else "or", [self.cond(v, st) for v in e.values])
    if isinstance(e, ast.Compare):
      items = [e.left] + list(e.comparators)
      vals = [self.ev(x, st) for x in items]
      cs = []
      for a, op, b in zip(vals, e.ops, vals[1:]):
        a2, b2 = self.cmp_norm(a), self.cmp_norm(b)
        opn = type(op).__name__
        # None against None / a literal: decided here (x is None after `x = None` and an untouched loop)
        if opn in ("Is", "IsNot", "Eq", "NotEq") and isinstance(a, Const) and isinstance(b, Const) and (a.v is None or b.v is None):
          same = a.v is None and b.v is None
          cs.append(("const", same if opn in ("Is", "Eq") else not same))
          continue
        # an integer-valued term (gcd, //, %, bit_length, sums and products) is never None
        if opn in ("Is", "IsNot", "Eq", "NotEq"):
          other = b if (isinstance(a, Const) and a.v is None) else (a if (isinstance(b, Const) and b.v is None) else None)
          if isinstance(other, Poly) and (other.as_atom() is None or other.as_atom().kind in
                                          ("gcd", "mod", "fdiv", "shr", "shl", "band", "bor", "bxor", "bitlen", "len", "isqrt", "pow", "abs", "min", "max")):
            cs.append(("const", opn in ("IsNot", "NotEq")))
            continue
        # one orientation for comparisons with a literal: the literal goes to the right (`0 == x` is `x == 0`, `1 < n` is `n > 1`)
        if opn in _MIRROR and _is_literal(a2) and not _is_literal(b2):
          a2, b2, opn = b2, a2, _MIRROR[opn]
        cs.append(("cmp", opn, a2, b2))
      return cs[0] if len(cs) == 1 else ("and", cs)
    v = self.ev(e, st)
    if isinstance(v, tuple):
      return v
    if isinstance(v, Const):
      return ("const", bool(v.v))
    return ("truthy", v)

  def cmp_norm(self, v):
    if isinstance(v, tuple):
      return as_poly(v)
    if isinstance(v, Const) and isinstance(v.v, (int, bool)) and v.v is not None:
      return Poly.const(int(v.v))
    return v

  # ---------------------------------------------------------------- binding
  def bind(self, t, v, st, node=None):
    if isinstance(t, ast.Name):
      st.env[t.id] = v
      if node is not None and isinstance(node, (ast.Assign, ast.AnnAssign)):
        self.emit("assign", node, st, name=t.id, value=v)
    elif isinstance(t, (ast.Tuple, ast.List)):
      if isinstance(v, Seq) and len(v.items) == len(t.elts):
        for a, b in zip(t.elts, v.items):
          self.bind(a, b, st, node)
      else:
        pv = as_poly(v)
        for i, a in enumerate(t.elts):
          if isinstance(a, ast.Starred):
            self.bind(a.value, self.sym("star"), st, node)
          else:
            self.bind(a, mk("idx", pv, Poly.const(i)), st, node)
    elif isinstance(t, ast.Subscript):
      base = self.ev(t.value, st)
      if isinstance(t.slice, ast.Slice):
        idx = self.ev_Subscript(ast.Subscript(value=t.value, slice=t.slice, ctx=ast.Load()), st)
        idx = P("lit", "slice")
        bounds = [as_poly(self.ev(x, st)) if x is not None else None for x in (t.slice.lower, t.slice.upper, t.slice.step)]
        self.emit("store", node, st, base=base, index=idx, value=v, target=t, slice_lo=bounds[0], slice_hi=bounds[1], slice_step=bounds[2])
        x = t.value
        if isinstance(x, ast.Name):
          st.env[x.id] = mk("upd", as_poly(base), as_poly(idx), as_poly(v))
        return
      else:
        idx = self.ev(t.slice, st)
      outer = {}
      if isinstance(t.value, ast.Name) and _is_alias(st.env.get(t.value.id)):
        al = as_poly(st.env[t.value.id]).as_atom()
        self.emit("store", node, st, base=base, index=idx, value=v, target=t, outer_base=as_poly(al.args[0]), outer_index=as_poly(al.args[1]))
        return
      if isinstance(t.value, ast.Subscript) and not isinstance(t.value.slice, ast.Slice):
        # M[r][c] = v: the row M[r] may be normalised away (a row of a comprehension-built matrix is its element expression); keep M and r
        self.quiet += 1
        try:
          outer = {"outer_base": self.ev(t.value.value, st), "outer_index": self.ev(t.value.slice, st)}
        finally:
          self.quiet -= 1
      self.emit("store", node, st, base=base, index=idx, value=v, target=t, **outer)
      x = t.value
      if isinstance(x, ast.Name):
        st.env[x.id] = mk("upd", as_poly(base), as_poly(idx), as_poly(v))
    elif isinstance(t, ast.Attribute):
      base = self.ev(t.value, st)
      self.emit("setattr", node, st, base=base, attr=t.attr, value=v, target=t)
    elif isinstance(t, ast.Starred):
      self.bind(t.value, v, st, node)

  def iter_source(self, it):
    return [it]

  def bind_iter_target(self, target, it, st, k, node=None):
    """Binds a loop/comprehension target for the element at abstract position k of iterable `it`."""
    itp = as_poly(it) if not isinstance(it, Poly) else it
    a = itp.as_atom()
    if a is not None and a.kind == "enumerate":
      src = a.args[0]
      start = a.args[1] if len(a.args) > 1 and isinstance(a.args[1], Poly) and a.args[1].as_atom() is None else None
      el = Seq([k if start is None else k + start, self.elem(src, k)])
      self.bind(target, el, st, node)
      return
    if a is not None and a.kind in ("zip", "zip_longest"):
      srcs = [x for x in a.args if not (isinstance(x, Poly) and x.as_atom() is not None and x.as_atom().kind == "kw")]
      self.bind(target, Seq([self.elem(x, k) for x in srcs]), st, node)
      return
    if a is not None and a.kind == "range":
      ar = a.args
      if len(ar) == 1:
        v = k
      elif len(ar) == 2:
        v = ar[0] + k
      else:
        v = ar[0] + k * ar[2]
      self.bind(target, v, st, node)
      return
    if a is not None and a.kind == "items":
      key = mk("key", a.args[0], k)
      self.bind(target, Seq([key, mk("idx", a.args[0], key)]), st, node)
      return
    self.bind(target, self.elem(itp, k), st, node)

  def elem(self, src, k):
    a = src.as_atom() if isinstance(src, Poly) else None
    if a is not None and a.kind == "enumerate":
      return P("seq", k, self.elem(a.args[0], k))
    if a is not None and a.kind == "zip":
      return P("seq", *[self.elem(x, k) for x in a.args])
    return mk("idx", src, k)

  # ---------------------------------------------------------------- statements
  def assigned_names(self, stmts):
    s = set()
    # targets of comprehensions / generator expressions live in their own scope: they do not rebind a variable of the enclosing function
    comp_only = set()
    for n in ast.walk(ast.Module(body=list(stmts), type_ignores=[])):
      if isinstance(n, (ast.ListComp, ast.SetComp, ast.DictComp, ast.GeneratorExp)):
        for g in n.generators:
          for t in ast.walk(g.target):
            if isinstance(t, ast.Name):
              comp_only.add(id(t))
    for n in ast.walk(ast.Module(body=list(stmts), type_ignores=[])):
      if isinstance(n, ast.Name) and isinstance(n.ctx, (ast.Store, ast.Del)):
        if id(n) in comp_only:
          continue
        s.add(n.id)
      elif isinstance(n, ast.Call) and isinstance(n.func, ast.Attribute) and n.func.attr in MUTATORS \
          and isinstance(n.func.value, ast.Name):
        s.add(n.func.value.id)
      elif isinstance(n, (ast.Assign, ast.AugAssign)):
        tg = n.targets if isinstance(n, ast.Assign) else [n.target]
        for t in tg:
          if isinstance(t, ast.Subscript) and isinstance(t.value, ast.Name):
            s.add(t.value.id)
    return s

  def block(self, stmts, st):
    """Generator of (kind, value, state) outcomes of executing stmts from st."""
    if not stmts:
      yield ("fall", None, st)
      return
    first, rest = stmts[0], stmts[1:]
    for kind, val, s in self.stmt(first, st):
      if kind == "fall":
        yield from self.block(rest, s)
      else:
        yield (kind, val, s)

  def stmt(self, n, st):
    self.paths += 0
    if isinstance(n, ast.Assign):
      # `x = x + e` / `x = e + x` on numbers is the augmented assignment `x += e`: it is handled (and reported) as one
      if len(n.targets) == 1 and isinstance(n.targets[0], ast.Name) and isinstance(n.value, ast.BinOp):
        x_ = n.targets[0].id
        l_, r_ = n.value.left, n.value.right
        other = None
        if isinstance(l_, ast.Name) and l_.id == x_ and not any(isinstance(y, ast.Name) and y.id == x_ for y in ast.walk(r_)):
          other = r_
        elif isinstance(r_, ast.Name) and r_.id == x_ and isinstance(n.value.op, (ast.Add, ast.Mult, ast.BitOr, ast.BitAnd, ast.BitXor)) \
            and not any(isinstance(y, ast.Name) and y.id == x_ for y in ast.walk(l_)):
          other = l_
        cur = st.env.get(x_)
        if other is not None and isinstance(cur, Poly):
          self.quiet += 1
          try:
            probe = self.ev(other, st.fork())
          finally:
            self.quiet -= 1
          if isinstance(probe, (Poly, int)) or (isinstance(probe, Const) and isinstance(probe.v, (int, float)) and not isinstance(probe.v, bool)):
            aug = ast.copy_location(ast.AugAssign(target=ast.Name(id=x_, ctx=ast.Store()), op=n.value.op, value=other), n)
            ast.fix_missing_locations(aug)
            n.op = n.value.op                      # rules read the operator off the statement node
            r = self.ev(other, st)
            v = self.binop(n.value.op, as_poly(cur), as_poly(r), n)
            st.env[x_] = v
            st.last_rhs.pop(x_, None)
            self.emit("augassign", n, st, name=x_, value=v, rhs=r)
            yield ("fall", None, st)
            return
      v = self.ev(n.value, st)
      for t in n.targets:
        self.bind(t, v, st, n)
        if isinstance(t, ast.Name):
          st.last_rhs[t.id] = n.value
      yield ("fall", None, st)
    elif isinstance(n, ast.AnnAssign):
      if n.value is not None:
        v = self.ev(n.value, st)
        self.bind(n.target, v, st, n)
      yield ("fall", None, st)
    elif isinstance(n, ast.AugAssign):
      if isinstance(n.target, ast.Name):
        cur = st.env.get(n.target.id)
        if cur is None:
          cur = self.global_ref(n.target)
        r = self.ev(n.value, st)
        if isinstance(cur, Seq) and isinstance(r, Seq) and isinstance(n.op, ast.Add):
          v = Seq(cur.items + r.items, cur.kind)
        else:
          v = self.binop(n.op, as_poly(cur), as_poly(r), n)
        st.env[n.target.id] = v
        st.last_rhs.pop(n.target.id, None)
        self.emit("augassign", n, st, name=n.target.id, value=v, rhs=r)
      else:
        cur = self.ev(ast.copy_location(self._load(n.target), n), st)
        r = self.ev(n.value, st)
        v = self.binop(n.op, as_poly(cur), as_poly(r), n)
        self.emit("augstore", n, st, target=n.target, op=type(n.op).__name__, rhs=r, value=v)
        self.bind(n.target, v, st, n)
      yield ("fall", None, st)
    elif isinstance(n, ast.Expr):
      self.ev(n.value, st)
      yield ("fall", None, st)
    elif isinstance(n, ast.Return):
      v = self.ev(n.value, st) if n.value is not None else NONE
      self.paths += 1
      if self.paths > self.max_paths:
        raise Incomplete("path explosion in %s" % self.func.where, self.func.where)
      self.emit("return", n, st, value=v)
      yield ("return", v, st)
    elif isinstance(n, ast.Raise):
      self.paths += 1
      self.emit("raise", n, st, exc=n.exc)
      yield ("raise", n, st)
    elif isinstance(n, ast.Break):
      self.emit("break", n, st)
      yield ("break", None, st)
    elif isinstance(n, ast.Continue):
      self.emit("continue", n, st)
      yield ("continue", None, st)
    elif isinstance(n, ast.If):
      c = self.cond(n.test, st)
      if c[0] == "const":
        yield from self.block(n.body if c[1] else n.orelse, st)
        return
      s1 = st.fork()
      s1.assume(c, True, n)
      if not contradicts(st.facts, s1.facts[len(st.facts):]):
        yield from self.block(n.body, s1)
      s2 = st.fork()
      s2.assume(c, False, n)
      if not contradicts(st.facts, s2.facts[len(st.facts):]):
        yield from self.block(n.orelse, s2)
    elif isinstance(n, (ast.For, ast.While)):
      yield from self.loop(n, st)
    elif isinstance(n, ast.With):
      for it in n.items:
        v = self.ev(it.context_expr, st)
        if it.optional_vars is not None:
          self.bind(it.optional_vars, v, st, n)
      yield from self.block(n.body, st)
    elif isinstance(n, ast.Try):
      pre = st.fork()
      for kind, val, s in self.block(n.body, st):
        if kind == "fall":
          yield from self.block(list(n.orelse) + list(n.finalbody), s)
        else:
          yield (kind, val, s)
      # handlers: entered from the state before the try with everything the body assigns havocked
      assigned = self.assigned_names(n.body)
      for h in n.handlers:
        hs = pre.fork()
        for v in assigned:
          hs.env[v] = self.sym(v)
        et = ast.unparse(h.type) if h.type is not None else "BaseException"
        hs.assume(("opaque", P("except", et)), True, h)
        if h.name:
          hs.env[h.name] = self.sym(h.name)
        self.emit("except", h, hs, exc=et)
        for kind, val, s in self.block(h.body, hs):
          if kind == "fall":
            yield from self.block(list(n.finalbody), s)
          else:
            yield (kind, val, s)
    elif isinstance(n, (ast.Pass, ast.Import, ast.ImportFrom, ast.Global, ast.Nonlocal, ast.Assert)):
      yield ("fall", None, st)
    elif isinstance(n, (ast.FunctionDef, ast.ClassDef)):
      st.env[n.name] = P("localdef", n.name)
      yield ("fall", None, st)
    elif isinstance(n, ast.Delete):
      for t in n.targets:
        if isinstance(t, ast.Name):
          st.env.pop(t.id, None)
        else:
          self.emit("delete", n, st, target=t)
      yield ("fall", None, st)
    else:
      self.note("statement %s" % type(n).__name__, None)
      yield ("fall", None, st)

  def _filtered_append(self, v, hv, ends, visit, mod, henv, k, itv, pre_v):
    if isinstance(pre_v, Seq) and pre_v.items:
      return None
    ka = as_poly(k).as_atom()
    if ka is None:
      return None
    base_pc = len(visit["head"].pc)
    app, skip = [], []
    for s2 in ends:
      cur = s2.env.get(v)
      a = cur.as_atom() if isinstance(cur, Poly) else None
      if isinstance(cur, Poly) and cur == hv:
        skip.append(s2)
      elif a is not None and a.kind == "mut" and len(a.args) == 4 and a.args[0] == hv and a.args[1] == P("lit", "append"):
        app.append((s2, a.args[2]))
      else:
        return None
    if not app or not skip or any(repr(x) != repr(app[0][1]) for _, x in app):
      return None
    # one deciding test: every appending pass has it with one polarity, every other pass with the opposite one, and it is the only new condition
    def new_pc(s2):
      return s2.pc[base_pc:]
    tests = {}
    for s2, _ in app:
      pcs = new_pc(s2)
      if len(pcs) != 1:
        return None
      tests[(id(pcs[0][2]), pcs[0][1])] = pcs[0]
    if len(tests) != 1:
      return None
    (nid, pol), (ctree, _, node) = list(tests.items())[0]
    for s2 in skip:
      pcs = new_pc(s2)
      if len(pcs) != 1 or id(pcs[0][2]) != nid or pcs[0][1] == pol:
        return None
    carried = set()
    for v2 in mod:
      hv2 = henv.get(v2)
      if isinstance(hv2, Poly) and hv2.as_atom() is not None and hv2.as_atom().kind == "sym" and hv2.as_atom() != ka:
        carried.add(hv2.as_atom())
    elt = as_poly(app[0][1])
    if any(x in carried for x in elt.all_atoms()):
      return None
    bv = Atom("bv", "b%d" % next(self.fresh))

    def sub_c(c):
      if isinstance(c, Poly):
        return rebuild(c.deep_subst(ka, Poly.atom(bv)))
      if isinstance(c, tuple):
        return tuple(sub_c(x) for x in c)
      if isinstance(c, list):
        return [sub_c(x) for x in c]
      if isinstance(c, Seq):
        return Seq([sub_c(x) for x in c.items], c.kind)
      return c
    c1 = sub_c(ctree)
    if any(isinstance(x, Poly) and any(y in carried for y in x.all_atoms()) for x in _cond_polys(c1)):
      return None
    NEG = {"Eq": "NotEq", "NotEq": "Eq", "Lt": "GtE", "GtE": "Lt", "Gt": "LtE", "LtE": "Gt", "Is": "IsNot", "IsNot": "Is", "In": "NotIn", "NotIn": "In"}
    if pol:
      conds = [c1]
    elif isinstance(c1, tuple) and c1 and c1[0] == "cmp" and c1[1] in NEG:
      conds = [("cmp", NEG[c1[1]], c1[2], c1[3])]          # `if a != b: continue` keeps exactly the elements with a == b
    elif isinstance(c1, tuple) and c1 and c1[0] == "truthy":
      conds = [("falsy", c1[1])]
    elif isinstance(c1, tuple) and c1 and c1[0] == "falsy":
      conds = [("truthy", c1[1])]
    else:
      conds = [("not", c1)]
    FILTER_CONDS[repr(conds)] = conds
    src = self.iter_source(itv)
    src_f = mk("filter", as_poly(src[0]) if src else as_poly(itv), P("cond", repr(conds)))
    # the element in terms of the filtered source: the loop item it[k] becomes filtered[bv2]; any other use of k cannot be expressed
    bv2 = Atom("bv", "b%d" % next(self.fresh))
    item = mk("idx", as_poly(itv), Poly.atom(ka))
    ia = item.as_atom()
    if ia is None:
      return None
    elt2 = rebuild(elt.deep_subst(ia, mk("idx", src_f, Poly.atom(bv2))))
    ra_ = as_poly(itv).as_atom()
    if ka in elt2.all_atoms() and ra_ is not None and ra_.kind == "range" and len(ra_.args) == 1:
      elt2 = rebuild(elt2.deep_subst(ka, mk("idx", src_f, Poly.atom(bv2))))          # the items of range(n) are their own positions
    if ka in elt2.all_atoms():
      return None
    return Poly.atom(Atom("map", elt2, bv2, as_poly(src_f)))

  def _load(self, t):
    t2 = ast.parse(ast.unparse(t), mode="eval").body
    return t2

  # ---- loops
  def loop(self, n, st):
    is_for = isinstance(n, ast.For)
    mod = self.assigned_names(n.body)
    if is_for:
      mod |= self.assigned_names([ast.Expr(n.target)]) | {x.id for x in ast.walk(n.target) if isinstance(x, ast.Name)}
    # `row = m[j]` before the loop and only `row[c] = v` inside: row still names that element of m (stores through it are recorded with their outer base)
    rebound = {x.id for x in ast.walk(ast.Module(body=list(n.body), type_ignores=[])) if isinstance(x, ast.Name) and isinstance(x.ctx, (ast.Store, ast.Del))}
    mutated = {x.func.value.id for x in ast.walk(ast.Module(body=list(n.body), type_ignores=[])) if isinstance(x, ast.Call) and isinstance(x.func, ast.Attribute)
               and x.func.attr in MUTATORS and isinstance(x.func.value, ast.Name)}
    for v_ in sorted(mod):
      if v_ not in rebound and v_ not in mutated and _is_alias(st.env.get(v_)) and not (is_for and v_ in {x.id for x in ast.walk(n.target) if isinstance(x, ast.Name)}):
        mod.discard(v_)
    itv = self.ev(n.iter, st) if is_for else None
    # literal iterable: unroll (e.g. `for r in [r0, 2**k - r0]`, `for rt in (t, -t)`)
    if is_for and self.unroll and isinstance(itv, Seq) and 0 < len(itv.items) <= 8:
      yield from self.unrolled(n, itv.items, st)
      return
    if is_for and isinstance(itv, Seq) and not itv.items and itv.kind in ("list", "tuple"):
      # a loop over the empty literal list does nothing (only its else clause runs)
      if n.orelse:
        yield from self.block(n.orelse, st)
      else:
        yield ("fall", None, st)
      return
    if self.quiet:
      info = {"node": n, "modified": sorted(mod), "iter": itv}   # trial run of an enclosing loop: keep no record
    else:
      info = self.loop_info.setdefault(id(n), {"node": n, "modified": sorted(mod), "iter": itv})
    # candidate invariants v = E (last syntactic rhs before the loop)
    cands = {}
    for v in sorted(mod):
      rhs = st.last_rhs.get(v)
      if rhs is not None and v in st.env and isinstance(st.env[v], Poly):
        cands[v] = rhs
    k = self.sym("k")   # abstract iteration index
    def head_state(hyps, thyps):
      h = st.fork()
      h.tags.append(("loop", id(n)))
      for v in mod:
        h.env[v] = self.sym(v)
        h.last_rhs.pop(v, None)
      for v, c in chyps.items():
        h.env[v] = c                # constant invariant: None / bool / string flag that no completed pass changes
      for v, rhs in hyps.items():
        e = self.ev(rhs, h)
        if isinstance(e, Poly):
          h.env[v] = e
      for v, t in thyps.items():
        if v not in hyps and v not in chyps:
          h.facts.append(("truthy" if t else "falsy", h.env[v]))
      if is_for:
        self.bind_iter_target(n.target, itv, h, k, n)
      else:
        c = self.cond(n.test, h)
        h.assume(c, True, n)
      return h
    hyps = dict(cands)
    # truthiness invariants: a variable that is definitely falsy/truthy before the loop
    thyps = {}
    for v in sorted(mod):
      if v in st.env:
        t = _truthiness(st.env[v], st)
        if t is not None:
          thyps[v] = t
    # constant invariants: a None / bool / string value before the loop that every completed pass leaves in place (a pass that changes it
    # leaves the loop by break / return: `found = None; for ..: if c: found = x; break`)
    chyps = {}
    for v in sorted(mod):
      pv = st.env.get(v)
      if isinstance(pv, Const) and (pv.v is None or isinstance(pv.v, (bool, str))) and v not in hyps and not (is_for and v in {x.id for x in ast.walk(n.target) if isinstance(x, ast.Name)}):
        chyps[v] = pv
      elif v not in hyps and not (is_for and v in {x.id for x in ast.walk(n.target) if isinstance(x, ast.Name)}) and \
          ((isinstance(pv, Seq) and pv.kind in ("list", "tuple") and pv.items and all(isinstance(x_, Poly) for x_ in pv.items)) or
           (isinstance(pv, Poly) and not _is_alias(pv))):
        # likewise a literal list / a value that only a pass which leaves the loop changes (`fs = [g]; for ..: if c: fs = fs + [h]; break`)
        chyps[v] = pv
    while hyps or thyps or chyps:
      self.quiet += 1
      try:
        h = head_state(hyps, thyps)
        bad = set()
        tbad = set()
        cbad = set()
        for kind, val, s in self.block(n.body, h):
          if kind in ("fall", "continue"):
            for v, rhs in hyps.items():
              want = self.ev(rhs, s)
              have = s.env.get(v)
              if not (isinstance(want, Poly) and isinstance(have, Poly) and (want - have).is_zero()):
                bad.add(v)
            for v, t in thyps.items():
              have = s.env.get(v)
              if have is None or _truthiness(have, s) is not t:
                tbad.add(v)
            for v, c in chyps.items():
              have = s.env.get(v)
              if not _same_value(have, c):
                cbad.add(v)
      finally:
        self.quiet -= 1
      if not bad and not tbad and not cbad:
        break
      if cbad:
        # a refuted value hypothesis may be what made the others fail: drop it alone and try again
        for v in cbad:
          chyps.pop(v)
        continue
      for v in bad:
        hyps.pop(v)
      for v in tbad:
        thyps.pop(v)
      for v in cbad:
        chyps.pop(v)
    self.invariants[id(n)] = {v: ast.unparse(r) for v, r in hyps.items()}
    info["invariants"] = dict(self.invariants[id(n)])
    info["truthiness_invariants"] = dict(thyps)
    h = head_state(hyps, thyps)
    self.emit("loophead", n, h, k=k, iter=itv, modified=sorted(mod))
    exits = []
    ends = []   # states at the end of an iteration (fall/continue): candidates for the final values
    since = len(h.trace)
    info["pre_state"] = st
    visit = {"pre": st.fork(), "head": h.fork(), "k": k, "iter": itv, "hyps": dict(hyps), "since": since}
    if not self.quiet:
      info.setdefault("visits", []).append(visit)
    body_paths = info.setdefault("body_paths", []) if not self.quiet else []
    for kind, val, s in self.block(n.body, h):
      body_paths.append((kind, val, s, since, visit))
      if kind in ("fall", "continue"):
        ends.append(s)
        continue
      if kind == "break":
        s.tags = list(st.tags)
        exits.append(s)
      else:
        yield (kind, val, s)
    # normal termination
    after = st.fork()
    for v in mod:
      after.env[v] = self.sym(v)
      after.last_rhs.pop(v, None)
    for v, rhs in hyps.items():
      e = self.ev(rhs, after)
      if isinstance(e, Poly):
        after.env[v] = e
    for v, c in chyps.items():
      after.env[v] = c
    # refinement: a variable that is falsy (resp. truthy / identical) before the loop and at the end
    # of every iteration is so after normal termination
    for v in mod:
      if v in hyps or v not in st.env:
        continue
      cands = [(st.env[v], st)] + [(s2.env.get(v), s2) for s2 in ends]
      if any(c is None for c, _ in cands):
        continue
      if all(repr(c) == repr(cands[0][0]) for c, _ in cands) and not _mentions_loop_syms(cands[0][0], h, st):
        after.env[v] = cands[0][0]
        continue
    # append-loop summary: `L = []; for t in it: L.append(f(t))` (one unconditional append per pass, no break, f independent of loop-carried
    # state) is the comprehension [f(t) for t in it]
    if is_for and not exits and ends and not isinstance(itv, Seq):
      ka = as_poly(k).as_atom()
      henv = visit["head"].env          # the head state proper (h itself has been advanced by the body)
      for v in mod:
        pre_v = st.env.get(v)
        empty_set = isinstance(pre_v, Poly) and pre_v.as_atom() is not None and pre_v.as_atom().kind == "set" and not pre_v.as_atom().args
        listval = isinstance(pre_v, Poly) and _listlike(pre_v)          # a list already known as a value (comprehension, repetition, concatenation)
        if not (empty_set or listval or (isinstance(pre_v, Seq) and pre_v.kind == "list" and all(not isinstance(x_, tuple) for x_ in pre_v.items))) or v not in henv or isinstance(henv[v], (Seq, Const, tuple)):
          continue
        hv = as_poly(henv[v])
        elts = []
        grow = P("lit", "add") if empty_set else P("lit", "append")
        for s2 in ends:
          cur = s2.env.get(v)
          a = cur.as_atom() if isinstance(cur, Poly) else None
          if a is None or a.kind != "mut" or len(a.args) != 4 or a.args[0] != hv or a.args[1] != grow:
            elts = None
            break
          elts.append(a.args[2])
        if elts is None or (not elts) or any(repr(x) != repr(elts[0]) for x in elts):
          # conditional append: `for t in it: if c(t): L.append(f(t))` is the filtered comprehension [f(t) for t in it if c(t)] - when the passes
          # split into those under one condition that append once and those under its negation that leave L alone
          filt = self._filtered_append(v, hv, ends, visit, mod, henv, k, itv, pre_v) if not empty_set else None
          if filt is not None:
            after.env[v] = filt
          continue
        elt = elts[0]
        carried = set()
        for v2 in mod:
          hv2 = henv.get(v2)
          if isinstance(hv2, Poly) and hv2.as_atom() is not None and hv2.as_atom().kind == "sym" and hv2.as_atom() != ka:
            carried.add(hv2.as_atom())
        if isinstance(elt, Poly) and any(x.kind == "sym" and x != ka and x not in carried for x in elt.all_atoms()):
          # the element may be the exit value of an inner accumulation loop: read it as the sum it computes (it depends on the pass through its range)
          try:
            elt = resolve_sums(self, elt)
          except Exception:
            pass
        if ka is None or any(x in carried for x in elt.all_atoms()):
          continue
        bv = Atom("bv", "b%d" % next(self.fresh))
        tail = Poly.atom(Atom("map", rebuild(elt.deep_subst(ka, Poly.atom(bv))), bv, as_poly(itv)))
        # a literal list that is extended by the loop: [r0, r1] + [f(t) for t in it]; `s = set(); for t in it: s.add(f(t))` is {f(t) for t in it}
        if empty_set:
          after.env[v] = mk("set", tail)
        elif listval:
          after.env[v] = mk("concat", pre_v, tail)
        else:
          after.env[v] = tail if not pre_v.items else mk("concat", as_poly(pre_v), tail)
    # dict-fill summary: `D = {}; for t in it: D[key(t)] = val(t)` (one store per pass on every path, no break, key and value independent of
    # loop-carried state) is the dict comprehension {key(t): val(t) for t in it}
    if is_for and not exits and ends and not isinstance(itv, Seq):
      ka = as_poly(k).as_atom()
      henv = visit["head"].env
      for v in mod:
        pre_v = st.env.get(v)
        if not (isinstance(pre_v, Poly) and pre_v.as_atom() is not None and pre_v.as_atom().kind == "emptydict") or not isinstance(henv.get(v), Poly):
          continue
        hv = henv[v]
        kvs = []
        for s2 in ends:
          cur = s2.env.get(v)
          a = cur.as_atom() if isinstance(cur, Poly) else None
          if a is None or a.kind != "upd" or len(a.args) != 3 or a.args[0] != hv or not all(isinstance(x_, Poly) for x_ in a.args[1:]):
            kvs = None
            break
          kvs.append((a.args[1], a.args[2]))
        if not kvs or any(repr(x_) != repr(kvs[0]) for x_ in kvs):
          continue
        carried = set()
        for v2 in mod:
          hv2 = henv.get(v2)
          if isinstance(hv2, Poly) and hv2.as_atom() is not None and hv2.as_atom().kind == "sym" and hv2.as_atom() != ka:
            carried.add(hv2.as_atom())
        if ka is None or any(x_ in carried for y_ in kvs[0] for x_ in y_.all_atoms()):
          continue
        bv = Atom("bv", "b%d" % next(self.fresh))
        kv = [rebuild(y_.deep_subst(ka, Poly.atom(bv))) for y_ in kvs[0]]
        after.env[v] = mk("dictof", Poly.atom(Atom("map", P("seq", *kv), bv, as_poly(itv))))
    for v, t in thyps.items():
      if v not in hyps and isinstance(after.env.get(v), Poly) and after.env[v].as_atom() is not None:
        after.facts.append(("truthy" if t else "falsy", after.env[v]))
    visit["after_env"] = {v: after.env.get(v) for v in mod}
    visit["pre_env"] = {v: st.env.get(v) for v in mod}
    if not is_for:
      c = self.cond(n.test, after)
      has_break = bool(exits)
      after.assume(c, False, n)
    if n.orelse:
      for kind, val, s in self.block(n.orelse, after):
        if kind == "fall":
          yield ("fall", None, s)
        else:
          yield (kind, val, s)
    else:
      yield ("fall", None, after)
    for s in exits:
      yield ("fall", None, s)

  def unrolled(self, n, items, st):
    """Executes a for loop over a literal sequence element by element."""
    def run(i, s):
      if i == len(items):
        if n.orelse:
          yield from self.block(n.orelse, s)
        else:
          yield ("fall", None, s)
        return
      s = s.fork()
      self.bind(n.target, items[i], s, n)
      for kind, val, s2 in self.block(n.body, s):
        if kind in ("fall", "continue"):
          yield from run(i + 1, s2)
        elif kind == "break":
          yield ("fall", None, s2)
        else:
          yield (kind, val, s2)
    yield from run(0, st)


def resolve_sums(w, p, depth=0):
  """Replaces, in p, the exit value of a pure accumulation loop (acc = c; for t in it: acc += f(t), no early exit, f independent of other loop-carried
  values) by c + sum(f(t) for t in it) - the form a `sum(<generator>)` has.  Other symbols are left alone."""
  if not isinstance(p, Poly) or depth > 3:
    return p
  out = p
  for a in list(p.all_atoms()):
    if a.kind != "sym":
      continue
    target = Poly.atom(a)
    for li in w.loop_info.values():
      if not isinstance(li["node"], ast.For):
        continue
      for vis in li.get("visits", []):
        names = [n_ for n_, x_ in (vis.get("after_env") or {}).items() if isinstance(x_, Poly) and x_ == target]
        if not names:
          continue
        nm = names[0]
        pre = vis["pre_env"].get(nm)
        head = vis["head"].env
        hv = head.get(nm)
        if isinstance(pre, Const) and isinstance(pre.v, (int, float)) and not isinstance(pre.v, bool):
          pre = as_poly(pre)
        if not isinstance(pre, Poly) or not isinstance(hv, Poly):
          continue
        paths = [bp for bp in li["body_paths"] if bp[4] is vis]
        if not paths or any(bp[0] not in ("fall", "continue") for bp in paths):
          continue
        deltas = [bp[2].env.get(nm) for bp in paths]
        if any(not isinstance(d_, Poly) for d_ in deltas):
          continue
        elts = [d_ - hv for d_ in deltas]
        if any(e_ != elts[0] for e_ in elts):
          continue
        elt = elts[0]
        ka = as_poly(vis["k"]).as_atom()
        carried = {head[v_].as_atom() for v_ in li["modified"] if isinstance(head.get(v_), Poly) and head[v_].as_atom() is not None and head[v_].as_atom().kind == "sym" and head[v_].as_atom() != ka}
        if ka is None or any(x_ in carried for x_ in elt.all_atoms()):
          continue
        bv = Atom("bv", "r%s" % str(a.args[0]).replace("#", "_"))
        summed = mk("sum", Poly.atom(Atom("map", rebuild(elt.deep_subst(ka, Poly.atom(bv))), bv, as_poly(vis["iter"]))))
        out = rebuild(out.deep_subst(a, pre + summed))
  if out != p:
    return resolve_sums(w, out, depth + 1)
  return out


def resolve_counters(w, p, depth=0):
  """Replaces, in p, the loop-head value of a linear counter (v = c0 before the loop; every pass leaves v + d with d the same loop-invariant amount on
  every path) by c0 + k * d, k being the 0-based pass index of that loop."""
  if not isinstance(p, Poly) or depth > 3:
    return p
  out = p
  for a in list(p.all_atoms()):
    if a.kind != "sym":
      continue
    target = Poly.atom(a)
    for li in w.loop_info.values():
      for vis in li.get("visits", []):
        head = vis["head"].env
        names = [n_ for n_ in li["modified"] if isinstance(head.get(n_), Poly) and head[n_] == target]
        if not names:
          continue
        nm = names[0]
        ka = as_poly(vis["k"]).as_atom()
        if ka == a:
          continue
        pre = vis["pre_env"].get(nm)
        if isinstance(pre, Const) and isinstance(pre.v, int) and not isinstance(pre.v, bool):
          pre = Poly.const(pre.v)
        if not isinstance(pre, Poly):
          continue
        paths = [bp for bp in li["body_paths"] if bp[4] is vis]
        if not paths or any(bp[0] not in ("fall", "continue") for bp in paths):
          continue
        ends = [bp[2].env.get(nm) for bp in paths]
        if any(not isinstance(e_, Poly) for e_ in ends):
          continue
        ds = [e_ - target for e_ in ends]
        if any(d_ != ds[0] for d_ in ds):
          continue
        d = ds[0]
        carried = {head[v_].as_atom() for v_ in li["modified"] if isinstance(head.get(v_), Poly) and head[v_].as_atom() is not None and head[v_].as_atom().kind == "sym"}
        if any(x_ in carried or x_ == ka for x_ in d.all_atoms()):
          continue
        out = rebuild(out.deep_subst(a, pre + Poly.atom(ka) * d))
  if out != p:
    return resolve_counters(w, out, depth + 1)
  return out
