"""Loader and resolver (DESIGN 2.1): parses /repo, records modules, imports, classes, functions."""
from __future__ import annotations
import ast, os, glob
from .core import Incomplete

PKG = "paranoid_crypto"


class Func:
  def __init__(self, module, qual, node, cls=None):
    self.module = module   # Module
    self.qual = qual       # "Class.method" or "func"
    self.node = node
    self.cls = cls

  @property
  def name(self):
    return self.node.name

  @property
  def where(self):
    return "%s:%s" % (self.module.short, self.qual)

  def params(self, skip_self=True):
    a = [x.arg for x in self.node.args.args]
    if skip_self and self.cls is not None and a and a[0] == "self":
      a = a[1:]
    return a

  def default_of(self, pname):
    args = self.node.args.args
    defs = self.node.args.defaults
    off = len(args) - len(defs)
    for i, a in enumerate(args):
      if a.arg == pname and i >= off:
        return defs[i - off]
    return None


class Cls:
  def __init__(self, module, node):
    self.module = module
    self.node = node
    self.name = node.name
    self.methods = {}
    self.consts = {}   # class-level assignments
    self.bases = []    # resolved later: list of Cls or dotted strings


class Module:
  def __init__(self, name, path, src):
    self.name = name           # dotted, e.g. paranoid_crypto.lib.rsa_util
    self.short = name.split(".", 1)[1] if name.startswith(PKG + ".") else name
    self.short = self.short[4:] if self.short.startswith("lib.") else self.short
    self.path = path
    self.src = src
    self.tree = ast.parse(src, filename=path)
    self.is_test = path.endswith("_test.py")
    self.alpha = []            # units whose locals were renamed back to the pinned names (alpha-equivalent to the pinned tree)
    if not self.is_test:
      from . import alpha as _alpha
      self.alpha = _alpha.normalise(self.tree, self.short)
    self.imports = {}          # local alias -> dotted target (module or module.attr)
    self.funcs = {}
    self.classes = {}
    self.consts = {}           # module-level NAME -> value node
    self._index()

  def _index(self):
    for n in self.tree.body:
      if isinstance(n, ast.Import):
        for a in n.names:
          self.imports[a.asname or a.name.split(".")[0]] = a.name
      elif isinstance(n, ast.ImportFrom):
        for a in n.names:
          self.imports[a.asname or a.name] = (n.module or "") + "." + a.name
      elif isinstance(n, ast.FunctionDef):
        self.funcs[n.name] = Func(self, n.name, n)
      elif isinstance(n, ast.ClassDef):
        c = Cls(self, n)
        self.classes[n.name] = c
        for m in n.body:
          if isinstance(m, ast.FunctionDef):
            c.methods[m.name] = Func(self, n.name + "." + m.name, m, c)
          elif isinstance(m, ast.Assign) and len(m.targets) == 1 and isinstance(m.targets[0], ast.Name):
            c.consts[m.targets[0].id] = m.value
          elif isinstance(m, ast.AnnAssign) and isinstance(m.target, ast.Name) and m.value is not None:
            c.consts[m.target.id] = m.value
      elif isinstance(n, ast.Assign) and len(n.targets) == 1 and isinstance(n.targets[0], ast.Name):
        self.consts[n.targets[0].id] = n.value
      elif isinstance(n, ast.AnnAssign) and isinstance(n.target, ast.Name) and n.value is not None:
        self.consts[n.target.id] = n.value


class Repo:
  def __init__(self, root):
    self.root = root
    self.modules = {}      # dotted -> Module (non-test)
    self.tests = {}        # dotted -> Module (tests, parsed only to be excluded)
    self.examples = {}
    self.errors = []
    self._load()
    self._link()

  def _load(self):
    base = os.path.join(self.root, PKG)
    if not os.path.isdir(base):
      raise Incomplete("package directory %s not found" % base)
    for f in sorted(glob.glob(base + "/**/*.py", recursive=True)):
      rel = os.path.relpath(f, self.root)[:-3].replace(os.sep, ".")
      if rel.endswith(".__init__"):
        rel = rel[:-9]
      try:
        with open(f, encoding="utf-8") as fh:
          src = fh.read()
        m = Module(rel, f, src)
      except SyntaxError as e:
        raise Incomplete("cannot parse %s: %s" % (f, e))
      (self.tests if m.is_test else self.modules)[rel] = m
    ex = os.path.join(self.root, "examples")
    for f in sorted(glob.glob(ex + "/**/*.py", recursive=True)):
      rel = "examples." + os.path.relpath(f, ex)[:-3].replace(os.sep, ".")
      try:
        with open(f, encoding="utf-8") as fh:
          self.examples[rel] = Module(rel, f, fh.read())
      except SyntaxError as e:
        raise Incomplete("cannot parse %s: %s" % (f, e))

  def _link(self):
    for m in self.modules.values():
      for c in m.classes.values():
        for b in c.node.bases:
          if isinstance(b, ast.Subscript):   # Generic[T], BaseCheck[paranoid_pb2.RSAKey]
            b = b.value
          r = self.resolve_expr(m, b)
          c.bases.append(r if r is not None else ast.unparse(b))

  # ---------------------------------------------------------------- lookup
  def mod(self, short):
    """Module by short name, e.g. 'rsa_util', 'randomness_tests.rng', 'data.storage'."""
    for cand in (PKG + ".lib." + short, PKG + "." + short, short):
      if cand in self.modules:
        return self.modules[cand]
    raise Incomplete("module %s not found in /repo" % short, short)

  def func(self, short, name):
    m = self.mod(short)
    if "." in name:
      cn, mn = name.split(".", 1)
      c = m.classes.get(cn)
      if c is None:
        raise Incomplete("class %s.%s vanished" % (short, cn), short)
      f = self.find_method(c, mn)
      if f is None:
        raise Incomplete("method %s.%s vanished" % (short, name), short)
      return f
    f = m.funcs.get(name)
    if f is None:
      raise Incomplete("function %s.%s vanished" % (short, name), short)
    return f

  def cls(self, short, name):
    c = self.mod(short).classes.get(name)
    if c is None:
      raise Incomplete("class %s.%s vanished" % (short, name), short)
    return c

  def mro(self, c):
    out, seen, work = [], set(), [c]
    while work:
      x = work.pop(0)
      if not isinstance(x, Cls) or id(x) in seen:
        continue
      seen.add(id(x))
      out.append(x)
      work.extend(x.bases)
    return out

  def find_method(self, c, name):
    for k in self.mro(c):
      if name in k.methods:
        return k.methods[name]
    return None

  def resolve_dotted(self, dotted):
    """dotted path -> Module | Func | Cls | ('const', Module, name) | None"""
    if dotted in self.modules:
      return self.modules[dotted]
    if "." in dotted:
      head, attr = dotted.rsplit(".", 1)
      m = self.modules.get(head)
      if m is not None:
        if attr in m.funcs:
          return m.funcs[attr]
        if attr in m.classes:
          return m.classes[attr]
        if attr in m.consts:
          return ("const", m, attr)
        if attr in m.imports:
          return self.resolve_dotted(m.imports[attr])
    return None

  def resolve_expr(self, module, e):
    """Resolves Name / Attribute chains through import aliases. Returns like resolve_dotted,
    or ('ext', dotted) for external names, or None."""
    parts = []
    x = e
    while isinstance(x, ast.Attribute):
      parts.append(x.attr)
      x = x.value
    if not isinstance(x, ast.Name):
      return None
    parts.append(x.id)
    parts.reverse()
    head = parts[0]
    if head in module.funcs and len(parts) == 1:
      return module.funcs[head]
    if head in module.classes:
      c = module.classes[head]
      if len(parts) == 1:
        return c
      if len(parts) == 2:
        f = self.find_method(c, parts[1])
        if f:
          return f
        if parts[1] in c.consts:
          return ("clsconst", c, parts[1])
      return None
    if head in module.consts and len(parts) == 1:
      return ("const", module, head)
    if head in module.imports:
      dotted = ".".join([module.imports[head]] + parts[1:])
      r = self.resolve_dotted(dotted)
      if r is not None:
        return r
      # class attribute through module: mod.Class.attr
      if len(parts) >= 3:
        r2 = self.resolve_dotted(".".join([module.imports[head]] + parts[1:-1]))
        if isinstance(r2, Cls):
          f = self.find_method(r2, parts[-1])
          if f:
            return f
          if parts[-1] in r2.consts:
            return ("clsconst", r2, parts[-1])
      return ("ext", dotted)
    return None

  def ext_name(self, module, e):
    """Canonical dotted name of a call target for external libraries (gmpy2.isqrt, math.sqrt...)."""
    r = self.resolve_expr(module, e)
    if isinstance(r, tuple) and r[0] == "ext":
      return r[1]
    if r is None:
      try:
        return ast.unparse(e)
      except Exception:
        return None
    return None

  # ---------------------------------------------------------------- stats
  def all_funcs(self, include_examples=False):
    mods = list(self.modules.values()) + (list(self.examples.values()) if include_examples else [])
    for m in mods:
      for f in m.funcs.values():
        yield f
      for c in m.classes.values():
        for f in c.methods.values():
          yield f

  def stats(self):
    nf = sum(1 for _ in self.all_funcs())
    calls = res = 0
    for m in self.modules.values():
      for n in ast.walk(m.tree):
        if isinstance(n, ast.Call):
          calls += 1
          r = self.resolve_expr(m, n.func)
          if r is not None:
            res += 1
    return {"modules": len(self.modules), "test_modules_excluded": len(self.tests),
            "examples": len(self.examples), "functions": nf, "call_sites": calls,
            "call_sites_resolved_by_alias": res,
            "units_alpha_normalised": sorted("%s:%s" % (m.short, q) for m in self.modules.values() for q, _ in m.alpha)}


def norm(node):
  """Normalised statement text used in construct keys (no line numbers)."""
  try:
    s = ast.unparse(node)
  except Exception:
    s = type(node).__name__
  s = " ".join(s.split())
  return s[:160]
