"""Result collection, verdict policy, evidence and replay writing.

Verdict policy (DESIGN.md section 1):
  * violation   -> exit 1, `VIOLATION property=<id> replay=<path>` (only for obligations
                   that are definitely unmet under fully modelled constructs)
  * incomplete  -> exit 2, `ANALYSIS-INCOMPLETE ...` (unknown construct / vanished anchor /
                   rule instance count below the confirmed minimum); never a VIOLATION line
  * known finding (listed in known_findings.json by key) -> `KNOWN-FINDING: ...`, exit 0
"""
from __future__ import annotations
import json, os, sys, time, hashlib, traceback

VERIF = os.path.dirname(os.path.dirname(os.path.abspath(__file__)))
REPO = os.environ.get("PCSTATIC_REPO", "/repo")
# the self-test analyses scratch copies and must not overwrite the real evidence
EVIDENCE_DIR = os.environ.get("PCSTATIC_EVIDENCE_DIR") or os.path.join(VERIF, "evidence")


class Incomplete(Exception):
  """Raised by engine code when a construct is outside the modelled subset."""

  def __init__(self, msg, where=""):
    super().__init__(msg)
    self.msg = msg
    self.where = where


class Result:
  __slots__ = ("rule", "where", "construct", "status", "detail", "data")

  def __init__(self, rule, where, construct, status, detail="", data=None):
    self.rule = rule
    self.where = where          # "module:function"
    self.construct = construct  # normalised statement / table id (no line numbers)
    self.status = status        # ok | violation | incomplete
    self.detail = detail
    self.data = data or {}

  @property
  def key(self):
    return "%s|%s|%s" % (self.rule, self.where, self.construct)

  def as_dict(self):
    d = {"rule": self.rule, "where": self.where, "construct": self.construct,
         "status": self.status, "detail": self.detail}
    if self.data:
      d["data"] = self.data
    return d


class Ctx:
  """Collects obligations for one property run."""

  def __init__(self, prop, tier, repo):
    self.prop = prop
    self.tier = tier
    self.repo = repo  # pcstatic.loader.Repo
    self.results = []
    self.min_counts = {}   # rule -> (min instances, reason)
    self.notes = []
    self.extra = {}        # extra coverage keys

  # ---- recording
  def ok(self, rule, where, construct, detail="", **data):
    self.results.append(Result(rule, where, construct, "ok", detail, data))

  def violation(self, rule, where, construct, detail="", **data):
    self.results.append(Result(rule, where, construct, "violation", detail, data))

  def incomplete(self, rule, where, construct, detail="", **data):
    self.results.append(Result(rule, where, construct, "incomplete", detail, data))

  def record(self, rule, where, construct, holds, detail="", **data):
    """holds: True ok / False violation / None incomplete."""
    st = "ok" if holds is True else ("violation" if holds is False else "incomplete")
    self.results.append(Result(rule, where, construct, st, detail, data))
    return holds

  def borrow(self, fn, to_rule, keep=None, *args):
    """Runs a sibling property's rule function and files the rows selected by keep(result) under to_rule
    (shared obligation: the same construct is a necessary condition of both properties); other rows it produced are dropped."""
    n0 = len(self.results)
    fn(self, *args)
    new = self.results[n0:]
    del self.results[n0:]
    got = 0
    for r in new:
      if keep is None or keep(r):
        r.detail = "[shared with %s] %s" % (r.rule, r.detail)
        r.rule = to_rule
        self.results.append(r)
        got += 1
    return got

  def expect(self, rule, n, reason=""):
    """Fail closed when a rule matches fewer than n instances."""
    self.min_counts[rule] = (n, reason)

  def note(self, s):
    self.notes.append(s)

  def count(self, rule):
    return sum(1 for r in self.results if r.rule == rule)


def load_known():
  p = os.path.join(VERIF, "known_findings.json")
  if not os.path.exists(p):
    return {"findings": [], "fixed": []}
  with open(p) as f:
    return json.load(f)


def finish(ctx, t0, level, trusted_base, assumptions, explanation, checker_cmd):
  """Applies the verdict policy, writes evidence + replay files, returns exit code."""
  prop = ctx.prop
  out = []
  known = load_known()
  known_keys = {k["key"]: k for k in known.get("findings", []) if k.get("property") == prop}
  # instance-count guards
  for rule, (n, reason) in sorted(ctx.min_counts.items()):
    c = ctx.count(rule)
    if c < n:
      ctx.incomplete(rule, "-", "instance-count",
                     "rule matched %d instances, at least %d confirmed on the pinned tree (%s)"
                     % (c, n, reason))
  viol = [r for r in ctx.results if r.status == "violation"]
  inc = [r for r in ctx.results if r.status == "incomplete"]
  okr = [r for r in ctx.results if r.status == "ok"]
  new_viol, known_hit = [], []
  for r in viol:
    (known_hit if r.key in known_keys else new_viol).append(r)
  os.makedirs(os.path.join(EVIDENCE_DIR, "replay"), exist_ok=True)
  # stale replays of this property are removed
  rdir = os.path.join(EVIDENCE_DIR, "replay")
  for f in os.listdir(rdir):
    if f.startswith(prop + "-"):
      try:
        os.remove(os.path.join(rdir, f))
      except OSError:
        pass
  per_rule = {}
  for r in ctx.results:
    d = per_rule.setdefault(r.rule, {"ok": 0, "violation": 0, "incomplete": 0})
    d[r.status] += 1
  out.append("== %s tier=%s  rules=%d obligations=%d ok=%d violations=%d (known %d) incomplete=%d"
        % (prop, ctx.tier, len(per_rule), len(ctx.results), len(okr), len(viol),
           len(known_hit), len(inc)))
  for rule in sorted(per_rule):
    d = per_rule[rule]
    out.append("   %-22s ok=%-3d violation=%-2d incomplete=%-2d" % (rule, d["ok"], d["violation"], d["incomplete"]))
  for r in known_hit:
    out.append("KNOWN-FINDING: property=%s %s  [%s] %s" % (prop, known_keys[r.key].get("what", r.key), r.key, r.detail))
  for i, r in enumerate(new_viol):
    path = os.path.join(rdir, "%s-%d.json" % (prop, i))
    with open(path, "w") as f:
      json.dump({"property": prop, **r.as_dict(), "key": r.key}, f, indent=1, default=str)
    out.append("  violated: %s @ %s :: %s -- %s" % (r.rule, r.where, r.construct, r.detail))
    out.append("VIOLATION property=%s replay=%s" % (prop, path))
  for r in inc:
    out.append("ANALYSIS-INCOMPLETE property=%s rule=%s where=%s construct=%s -- %s"
          % (prop, r.rule, r.where, r.construct, r.detail))
  distinct = len({r.key for r in ctx.results if r.status != "incomplete"})
  samples = [r.as_dict() for r in (new_viol + known_hit + okr)[:12]]
  cov = {
      "evaluations": len(ctx.results),
      "distinct_nontrivial": distinct,
      "rule": ("each evaluation is one rule instance (obligation) extracted from /repo's current "
               "source by the static engine; distinct = distinct (rule, function, construct) keys "
               "with a non-empty obligation"),
      "samples": samples,
      "obligations": len(ctx.results),
      "discharged": len(okr) + len(known_hit),
      "checker_cmd": checker_cmd,
      "trusted_base": trusted_base,
      "explanation": explanation,
      "per_rule": per_rule,
      "known_findings_printed": [r.key for r in known_hit],
      "incomplete": [r.as_dict() for r in inc],
      "loader": ctx.repo.stats() if ctx.repo is not None else {},
      "notes": ctx.notes,
  }
  cov.update(ctx.extra)
  ev = {
      "property_id": prop,
      "tier": ctx.tier,
      "seed": int(os.environ.get("VERIF_SEED", "0") or 0),
      "level": level,
      "coverage": cov,
      "assumptions": assumptions,
      "wall_s": round(time.time() - t0, 3),
      "violations": len(new_viol),
  }
  with open(os.path.join(EVIDENCE_DIR, prop + ".json"), "w") as f:
    json.dump(ev, f, indent=1, default=str)
  try:
    for line in out:
      print(line)
    sys.stdout.flush()
  except BrokenPipeError:
    pass
  if new_viol:
    return 1
  if inc:
    return 2
  return 0
