"""Reference mathematics used by the table rules (DESIGN 2.8).  Independent of /repo; part of the
trusted base of the corresponding rule."""
from __future__ import annotations
import math
from fractions import Fraction
from decimal import Decimal, getcontext


# ---------------------------------------------------------------- longest run of ones in a block of M bits
def longest_run_cdf(M, v):
  """P(longest run of ones in M fair bits <= v), exact."""
  # a[i] = number of strings of length i whose longest run of ones is <= v
  a = [0] * (M + 1)
  for i in range(M + 1):
    if i <= v:
      a[i] = 1 << i
    elif i == v + 1:
      a[i] = (1 << i) - 1
    else:
      a[i] = 2 * a[i - 1] - a[i - v - 2]
  return Fraction(a[M], 1 << M)


def longest_run_classes(M, v_lower, v_upper):
  """[P(L <= v_lower), P(L = v_lower+1), ..., P(L >= v_upper)]"""
  out = []
  prev = Fraction(0)
  for v in range(v_lower, v_upper):
    c = longest_run_cdf(M, v)
    out.append(c - prev)
    prev = c
  out.append(1 - prev)
  return out


# ---------------------------------------------------------------- binary matrix rank (asymptotic, square)
def rank_probs_from_finite(n, kmax):
  """Exact distribution of the rank deficiency of a random n x n binary matrix (Fractions):
  P(rank = r) = 2^(-n^2) * prod_{i=0}^{r-1} (2^n - 2^i)^2 / (2^r - 2^i)."""
  out = []
  for k in range(kmax):
    r = n - k
    if r < 0:
      out.append(Fraction(0))
      continue
    num = 1
    den = 1
    for i in range(r):
      num *= ((1 << n) - (1 << i)) ** 2
      den *= (1 << r) - (1 << i)
    out.append(Fraction(num, den * (1 << (n * n))))
  return out


# ---------------------------------------------------------------- Maurer's universal statistic
def universal_mean_var(L, tol_terms=60):
  """(E[log2 A], Var[log2 A]) for block length L: sum_{i>=1} 2^-L (1-2^-L)^(i-1) log2(i)."""
  q = 2.0 ** -L
  N = int(tol_terms * 2 ** L) + 2000
  e_terms = []
  e2_terms = []
  w = q
  r = 1.0 - q
  log2 = math.log2
  for i in range(1, N):
    l = log2(i)
    e_terms.append(w * l)
    e2_terms.append(w * l * l)
    w *= r
  e = math.fsum(e_terms)
  e2 = math.fsum(e2_terms)
  return e, e2 - e * e


# ---------------------------------------------------------------- linear complexity (Rueppel)
def lfsr_count(n, m):
  """number of binary sequences of length n with linear complexity m."""
  if n < 0 or m < 0 or m > n:
    return 0
  if m == 0:
    return 1
  return 1 << min(2 * m - 1, 2 * n - 2 * m)


def linear_complexity_classes(M):
  """NIST bins around the median mu = (M+1)//2: [<= mu-3, mu-2, mu-1, mu, mu+1, mu+2, >= mu+3] as Fractions."""
  mu = (M + 1) // 2
  tot = 1 << M
  p = [Fraction(lfsr_count(M, m), tot) for m in range(M + 1)]
  out = [sum(p[:mu - 2])]
  for m in range(mu - 2, mu + 3):
    out.append(p[m])
  out.append(sum(p[mu + 3:]))
  return out


def berlekamp_massey(bits):
  """Textbook Berlekamp-Massey over GF(2); bits is a list of 0/1. Returns the linear complexity."""
  n = len(bits)
  c = [0] * (n + 1)
  b = [0] * (n + 1)
  c[0] = b[0] = 1
  l, m = 0, -1
  for i in range(n):
    d = bits[i]
    for j in range(1, l + 1):
      d ^= c[j] & bits[i - j]
    if d:
      t = c[:]
      shift = i - m
      for j in range(0, n + 1 - shift):
        c[j + shift] ^= b[j]
      if 2 * l <= i:
        l = i + 1 - l
        m = i
        b = t
  return l


# ---------------------------------------------------------------- primes
def primes_below(n):
  s = bytearray([1]) * n
  s[0:2] = b"\x00\x00"
  for i in range(2, int(n ** 0.5) + 1):
    if s[i]:
      s[i * i::i] = bytearray(len(s[i * i::i]))
  return [i for i in range(n) if s[i]]


MR_BASES = [2, 3, 5, 7, 11, 13, 17, 19, 23, 29, 31, 37, 41, 43, 47, 53, 59, 61, 67, 71, 73, 79, 83, 89, 97, 101, 103, 107, 109, 113,
            127, 131, 137, 139, 149, 151, 157, 163, 167, 173]


def is_probable_prime(n):
  if n < 2:
    return False
  for p in MR_BASES:
    if n % p == 0:
      return n == p
  d = n - 1
  s = 0
  while d % 2 == 0:
    d //= 2
    s += 1
  for a in MR_BASES:
    x = pow(a, d, n)
    if x in (1, n - 1):
      continue
    for _ in range(s - 1):
      x = x * x % n
      if x == n - 1:
        break
    else:
      return False
  return True


# ---------------------------------------------------------------- minimal affine EC arithmetic (curve validation)
def ec_add(P, Q, a, p):
  if P is None:
    return Q
  if Q is None:
    return P
  x1, y1 = P
  x2, y2 = Q
  if x1 == x2:
    if (y1 + y2) % p == 0:
      return None
    lam = (3 * x1 * x1 + a) * pow(2 * y1, -1, p) % p
  else:
    lam = (y2 - y1) * pow(x2 - x1, -1, p) % p
  x3 = (lam * lam - x1 - x2) % p
  return x3, (lam * (x1 - x3) - y1) % p


def ec_mul(k, P, a, p):
  R = None
  while k:
    if k & 1:
      R = ec_add(R, P, a, p)
    P = ec_add(P, P, a, p)
    k >>= 1
  return R


# Multipliers of the truncated-LCG emulation, {state bits: multiplier}: L'Ecuyer, "Tables of linear congruential generators of different sizes and good
# lattice structure", Math. Comp. 68 (1999), Table 4 (m = 2^e, c odd) and, for 256 bits, Steele & Vigna, "Computationally easy, spectrally good
# multipliers for congruential pseudorandom number generators" (2022).  Transcribed once from the pinned tree (the papers are not available offline);
# every entry is = 5 (mod 8), the full-period condition for modulus 2^e with an odd increment, which the checker re-verifies.
TRUNC_LCG_MULTIPLIERS = {
    32: 2891336453,
    34: 52765661,
    35: 22475205,
    36: 12132445,
    40: 330169576829,
    48: 181465474592829,
    60: 454339144066433781,
    63: 9219741426499971445,
    64: 2862933555777941757,
    96: 75564983892026345434470042133,
    128: 47026247687942121848144207491837418733,
    256: 92535799708728563004421432684894516311017097014017594320373447727772634342485,
}
