"""Exact multivariate polynomials over Q with opaque atoms (DESIGN 2.3)."""
from fractions import Fraction


class Atom:
  __slots__ = ("kind", "args", "_r", "_h")

  def __init__(self, kind, *args):
    self.kind = kind
    self.args = args
    self._r = None
    self._h = None

  def __eq__(self, o):
    return isinstance(o, Atom) and self.kind == o.kind and repr(self) == repr(o)

  def __hash__(self):
    if self._h is None:
      self._h = hash(repr(self))
    return self._h

  def __repr__(self):
    if self._r is None:
      self._r = self.kind + ("(" + ",".join(map(repr, self.args)) + ")" if self.args else "")
    return self._r


class Poly:
  __slots__ = ("t", "_k")

  def __init__(self, t=None):
    self.t = {k: v for k, v in (t or {}).items() if v != 0}
    self._k = None

  @staticmethod
  def const(c):
    return Poly({(): Fraction(c)})

  @staticmethod
  def atom(a):
    return Poly({((a, 1),): Fraction(1)})

  def __add__(self, o):
    o = lift(o)
    r = dict(self.t)
    for k, v in o.t.items():
      r[k] = r.get(k, 0) + v
    return Poly(r)

  __radd__ = __add__

  def __neg__(self):
    return Poly({k: -v for k, v in self.t.items()})

  def __sub__(self, o):
    return self + (-lift(o))

  def __rsub__(self, o):
    return lift(o) - self

  def __mul__(self, o):
    o = lift(o)
    r = {}
    for k1, v1 in self.t.items():
      for k2, v2 in o.t.items():
        if not k1:
          k = k2
        elif not k2:
          k = k1
        else:
          d = dict(k1)
          for a, e in k2:
            d[a] = d.get(a, 0) + e
          k = tuple(sorted(d.items(), key=lambda x: repr(x[0])))
        r[k] = r.get(k, 0) + v1 * v2
    return Poly(r)

  __rmul__ = __mul__

  def __pow__(self, e):
    e = int(e)
    if e < 0:
      raise ValueError("negative power")
    r = Poly.const(1)
    b = self
    while e:
      if e & 1:
        r = r * b
      e >>= 1
      if e:
        b = b * b
    return r

  def is_zero(self):
    return not self.t

  def is_const(self):
    return all(k == () for k in self.t)

  def constval(self):
    return self.t.get((), Fraction(0))

  def as_int(self):
    """int value if this is an integer constant, else None."""
    if self.is_const():
      c = self.constval()
      if c.denominator == 1:
        return int(c)
    return None

  def as_atom(self):
    """The Atom if this polynomial is exactly one atom, else None."""
    if len(self.t) == 1:
      (k, v), = self.t.items()
      if len(k) == 1 and k[0][1] == 1 and v == 1:
        return k[0][0]
    return None

  def atoms(self):
    return {a for k in self.t for a, _ in k}

  def all_atoms(self):
    """Atoms including those nested in atom arguments."""
    out = set()
    work = list(self.atoms())
    while work:
      a = work.pop()
      if a in out:
        continue
      out.add(a)
      for x in a.args:
        if isinstance(x, Poly):
          work.extend(x.atoms())
        elif isinstance(x, Atom):
          work.append(x)
    return out

  def subst(self, a, p):
    """Replace atom a by polynomial p (top level only)."""
    if a not in self.atoms():
      return self
    r = Poly()
    for k, v in self.t.items():
      term = Poly.const(v)
      for b, e in k:
        term = term * ((p ** e) if b == a else Poly({((b, e),): Fraction(1)}))
      r = r + term
    return r

  def deep_subst(self, a, p):
    """Replace atom a by p everywhere, also inside atom arguments."""
    def sub_atom(x):
      if x == a:
        return None
      if not any(isinstance(y, (Poly, Atom)) for y in x.args):
        return x
      na = []
      ch = False
      for y in x.args:
        if isinstance(y, Poly):
          z = y.deep_subst(a, p)
          ch = ch or (z is not y and z != y)
          na.append(z)
        elif isinstance(y, Atom):
          if y == a:
            ap = p.as_atom()
            na.append(ap if ap is not None else p)
            ch = True
          else:
            z = sub_atom(y)
            ch = ch or z is not y
            na.append(z)
        else:
          na.append(y)
      return Atom(x.kind, *na) if ch else x
    r = Poly()
    for k, v in self.t.items():
      term = Poly.const(v)
      for b, e in k:
        if b == a:
          term = term * (p ** e)
        else:
          term = term * Poly({((sub_atom(b), e),): Fraction(1)})
      r = r + term
    return r

  def degree_in(self, a):
    return max((e for k in self.t for b, e in k if b == a), default=0)

  def key(self):
    if self._k is None:
      self._k = tuple(sorted(((repr(k), v) for k, v in self.t.items())))
    return self._k

  def __eq__(self, o):
    return isinstance(o, Poly) and self.key() == o.key()

  def __hash__(self):
    return hash(self.key())

  def __repr__(self):
    if not self.t:
      return "0"
    out = []
    for k, v in sorted(self.t.items(), key=repr):
      m = "*".join((repr(a) if e == 1 else "%r^%d" % (a, e)) for a, e in k)
      if m:
        out.append(("" if v == 1 else ("-" if v == -1 else "%s*" % v)) + m)
      else:
        out.append("%s" % v)
    return " + ".join(out)


def lift(x):
  return x if isinstance(x, Poly) else Poly.const(x)


def P(kind, *args):
  return Poly.atom(Atom(kind, *args))
