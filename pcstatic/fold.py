"""Whitelisting constant folder (DESIGN 2.5).  Evaluates literal / table-building expressions of
/repo's AST without importing anything from /repo.  Anything outside the whitelist raises NotConst."""
from __future__ import annotations
import ast, math, operator
from fractions import Fraction


class NotConst(Exception):
  pass


class Sym:
  """Symbolic integer with an affine view a*X + b (used for `prime_size`, `bits`, ...)."""
  __slots__ = ("name", "a", "b")

  def __init__(self, name, a=1, b=0):
    self.name, self.a, self.b = name, a, b

  def _lift(self, o):
    if isinstance(o, Sym):
      if o.name != self.name:
        raise NotConst("two symbols")
      return o
    if isinstance(o, int) and not isinstance(o, bool):
      return Sym(self.name, 0, o)
    raise NotConst("sym op")

  def __add__(self, o):
    o = self._lift(o)
    return _norm(Sym(self.name, self.a + o.a, self.b + o.b))
  __radd__ = __add__

  def __sub__(self, o):
    o = self._lift(o)
    return _norm(Sym(self.name, self.a - o.a, self.b - o.b))

  def __rsub__(self, o):
    return self._lift(o) - self

  def __mul__(self, o):
    if isinstance(o, int) and not isinstance(o, bool):
      return _norm(Sym(self.name, self.a * o, self.b * o))
    raise NotConst("sym*sym")
  __rmul__ = __mul__

  def __neg__(self):
    return Sym(self.name, -self.a, -self.b)

  def __eq__(self, o):
    return isinstance(o, Sym) and (self.name, self.a, self.b) == (o.name, o.a, o.b)

  def __hash__(self):
    return hash((self.name, self.a, self.b))

  def __repr__(self):
    return "%s*%s%+d" % (self.a, self.name, self.b) if self.a != 1 or self.b else self.name


def _norm(s):
  return s.b if s.a == 0 else s


class Pow2:
  """2 ** (affine symbolic exponent)."""
  __slots__ = ("e",)

  def __init__(self, e):
    self.e = e

  def __eq__(self, o):
    return isinstance(o, Pow2) and self.e == o.e

  def __hash__(self):
    return hash(("Pow2", self.e))

  def __repr__(self):
    return "2^(%r)" % (self.e,)


BIN = {ast.Add: operator.add, ast.Sub: operator.sub, ast.Mult: operator.mul,
       ast.FloorDiv: operator.floordiv, ast.Mod: operator.mod, ast.LShift: operator.lshift,
       ast.RShift: operator.rshift, ast.BitOr: operator.or_, ast.BitAnd: operator.and_,
       ast.BitXor: operator.xor, ast.Div: operator.truediv}
CMP = {ast.Lt: operator.lt, ast.LtE: operator.le, ast.Gt: operator.gt, ast.GtE: operator.ge,
       ast.Eq: operator.eq, ast.NotEq: operator.ne, ast.In: lambda a, b: a in b,
       ast.NotIn: lambda a, b: a not in b, ast.Is: operator.is_, ast.IsNot: operator.is_not}
SAFE_CALLS = {"int": int, "len": len, "range": range, "list": list, "tuple": tuple, "sum": sum,
              "min": min, "max": max, "abs": abs, "set": set, "sorted": sorted, "float": float,
              "bool": bool, "dict": dict, "frozenset": frozenset, "str": str, "round": round,
              "math.sqrt": math.sqrt, "math.log": math.log, "math.log2": math.log2,
              "math.ceil": math.ceil, "math.floor": math.floor, "math.exp": math.exp,
              "gmpy2.mpz": int, "gmpy.mpz": int, "bytes.fromhex": bytes.fromhex,
              "enumerate": enumerate, "zip": zip, "reversed": reversed, "divmod": divmod}


class Folder:
  def __init__(self, env=None, resolver=None, max_pow_bits=1 << 16):
    self.env = dict(env or {})
    self.resolver = resolver   # callable(node) -> value or raises NotConst (for Name/Attribute)
    self.max_pow_bits = max_pow_bits

  def fold(self, e, env=None):
    env = self.env if env is None else env
    m = getattr(self, "f_" + type(e).__name__, None)
    if m is None:
      raise NotConst(type(e).__name__)
    return m(e, env)

  def f_Constant(self, e, env):
    return e.value

  def f_Name(self, e, env):
    if e.id in env:
      return env[e.id]
    if e.id in ("True", "False", "None"):
      return {"True": True, "False": False, "None": None}[e.id]
    if self.resolver is not None:
      return self.resolver(e)
    raise NotConst("name " + e.id)

  def f_Attribute(self, e, env):
    key = ast.unparse(e)
    if key in env:
      return env[key]
    if self.resolver is not None:
      return self.resolver(e)
    raise NotConst("attribute " + key)

  def f_Tuple(self, e, env):
    return tuple(self._elts(e.elts, env))

  def f_List(self, e, env):
    return list(self._elts(e.elts, env))

  def f_Set(self, e, env):
    return set(self._elts(e.elts, env))

  def _elts(self, elts, env):
    out = []
    for x in elts:
      if isinstance(x, ast.Starred):
        out.extend(self.fold(x.value, env))
      else:
        out.append(self.fold(x, env))
    return out

  def f_Dict(self, e, env):
    d = {}
    for k, v in zip(e.keys, e.values):
      if k is None:
        d.update(self.fold(v, env))
      else:
        d[self.fold(k, env)] = self.fold(v, env)
    return d

  def f_UnaryOp(self, e, env):
    v = self.fold(e.operand, env)
    if isinstance(e.op, ast.USub):
      return -v
    if isinstance(e.op, ast.UAdd):
      return +v
    if isinstance(e.op, ast.Not):
      return not v
    if isinstance(e.op, ast.Invert):
      return ~v
    raise NotConst("unary")

  def f_BinOp(self, e, env):
    l = self.fold(e.left, env)
    r = self.fold(e.right, env)
    if isinstance(e.op, ast.Pow):
      if isinstance(r, Sym) and l == 2:
        return Pow2(r)
      if isinstance(l, (Sym, Pow2)) or isinstance(r, (Sym, Pow2)):
        raise NotConst("symbolic pow")
      if isinstance(l, int) and isinstance(r, int):
        if r < 0:
          return Fraction(l) ** r
        if r * max(1, abs(l).bit_length()) > self.max_pow_bits:
          raise NotConst("pow too large")
        return l ** r
      return l ** r
    if isinstance(l, Pow2) or isinstance(r, Pow2):
      if isinstance(e.op, ast.FloorDiv) and isinstance(l, Pow2) and isinstance(r, int) and r > 0 and r & (r - 1) == 0:
        return Pow2(l.e - (r.bit_length() - 1))
      if isinstance(e.op, ast.Mult):
        if isinstance(l, Pow2) and isinstance(r, Pow2):
          return Pow2(l.e + r.e)
        c, p = (l, r) if isinstance(r, Pow2) else (r, l)
        if isinstance(c, int) and c > 0 and c & (c - 1) == 0:
          return Pow2(p.e + (c.bit_length() - 1))
      raise NotConst("pow2 arithmetic")
    f = BIN.get(type(e.op))
    if f is None:
      raise NotConst("binop")
    if isinstance(e.op, (ast.LShift,)) and isinstance(r, int) and r > self.max_pow_bits:
      raise NotConst("shift too large")
    try:
      return f(l, r)
    except NotConst:
      raise
    except Exception as ex:
      raise NotConst("binop failed: %s" % ex)

  def f_BoolOp(self, e, env):
    vals = [self.fold(v, env) for v in e.values]
    if isinstance(e.op, ast.And):
      r = True
      for v in vals:
        r = v
        if not v:
          break
      return r
    r = False
    for v in vals:
      r = v
      if v:
        break
    return r

  def f_Compare(self, e, env):
    l = self.fold(e.left, env)
    for op, c in zip(e.ops, e.comparators):
      r = self.fold(c, env)
      f = CMP.get(type(op))
      if f is None:
        raise NotConst("cmp")
      try:
        if not f(l, r):
          return False
      except Exception as ex:
        raise NotConst("cmp failed %s" % ex)
      l = r
    return True

  def f_IfExp(self, e, env):
    return self.fold(e.body, env) if self.fold(e.test, env) else self.fold(e.orelse, env)

  def f_Subscript(self, e, env):
    v = self.fold(e.value, env)
    if isinstance(e.slice, ast.Slice):
      lo = self.fold(e.slice.lower, env) if e.slice.lower else None
      hi = self.fold(e.slice.upper, env) if e.slice.upper else None
      st = self.fold(e.slice.step, env) if e.slice.step else None
      return v[lo:hi:st]
    try:
      return v[self.fold(e.slice, env)]
    except NotConst:
      raise
    except Exception as ex:
      raise NotConst("subscript failed %s" % ex)

  def f_Call(self, e, env):
    name = ast.unparse(e.func)
    if name in env and callable(env[name]):
      fn = env[name]
    else:
      fn = SAFE_CALLS.get(name)
    if fn is None:
      if self.resolver is not None:
        return self.resolver(e)
      raise NotConst("call " + name)
    args = self._elts(e.args, env)
    kw = {k.arg: self.fold(k.value, env) for k in e.keywords}
    try:
      r = fn(*args, **kw)
    except NotConst:
      raise
    except Exception as ex:
      raise NotConst("call failed %s" % ex)
    if isinstance(r, (range, enumerate, zip, reversed)):
      r = list(r)
    return r

  def _comp(self, gens, env, emit):
    def rec(i, env):
      if i == len(gens):
        emit(env)
        return
      g = gens[i]
      for item in self.fold(g.iter, env):
        e2 = dict(env)
        self._bind(g.target, item, e2)
        if all(self.fold(c, e2) for c in g.ifs):
          rec(i + 1, e2)
    rec(0, env)

  def _bind(self, t, v, env):
    if isinstance(t, ast.Name):
      env[t.id] = v
    elif isinstance(t, (ast.Tuple, ast.List)):
      v = list(v)
      if len(v) != len(t.elts):
        raise NotConst("unpack")
      for a, b in zip(t.elts, v):
        self._bind(a, b, env)
    else:
      raise NotConst("bind target")

  def f_ListComp(self, e, env):
    out = []
    self._comp(e.generators, env, lambda en: out.append(self.fold(e.elt, en)))
    return out

  def f_GeneratorExp(self, e, env):
    return self.f_ListComp(e, env)

  def f_SetComp(self, e, env):
    return set(self.f_ListComp(e, env))

  def f_DictComp(self, e, env):
    out = {}
    def emit(en):
      out[self.fold(e.key, en)] = self.fold(e.value, en)
    self._comp(e.generators, env, emit)
    return out

  def f_JoinedStr(self, e, env):
    raise NotConst("f-string")


def fold(node, env=None, resolver=None):
  return Folder(env, resolver).fold(node)


def try_fold(node, env=None, resolver=None, default=None):
  try:
    return Folder(env, resolver).fold(node)
  except NotConst:
    return default
