"""Closed forms of loop accumulations: for `x += term` statements nested in for-loops with no conditional control flow,
the number of executions is the product of the trip counts of the enclosing loops and the final value is the iterated sum of the term."""
from __future__ import annotations
import ast
from .poly import Poly, P
from .sym import Seq, Const, as_poly, mk


def parents(fnode):
  par = {}
  for n in ast.walk(fnode):
    for c in ast.iter_child_nodes(n):
      par[id(c)] = n
  return par


def trip_count(it):
  """len of an iterable expression as a Poly, or None."""
  if isinstance(it, Seq):
    return Poly.const(len(it.items))
  p = as_poly(it)
  a = p.as_atom()
  if a is None:
    return None
  if a.kind in ("param", "sym", "map", "sorted", "list", "reversed"):
    if a.kind in ("sorted", "list", "reversed", "map"):
      src = a.args[-1] if a.kind == "map" else a.args[0]
      return trip_count(src)
    return mk("len", p)
  if a.kind == "enumerate":
    return trip_count(a.args[0])
  if a.kind == "range":
    if len(a.args) == 1:
      return a.args[0]            # for a non-negative bound
    if len(a.args) == 2 and a.args[0].as_int() == 0:
      return a.args[1]
  return None


def enclosing_fors(fnode, stmt, par):
  """(list of For nodes outermost first, straight) - straight is False when anything but for-loop bodies separates stmt from the function body
  or when one of the loops contains break/continue/return."""
  chain = []
  straight = True
  n = stmt
  while True:
    p = par.get(id(n))
    if p is None or p is fnode:
      break
    if isinstance(p, ast.For):
      if n in p.orelse:
        straight = False
      chain.append(p)
    elif isinstance(p, (ast.FunctionDef, ast.AsyncFunctionDef, ast.Lambda, ast.ClassDef)):
      return [], False
    else:
      straight = False
    n = p
  chain.reverse()
  for lp in chain:
    for x in ast.walk(lp):
      if isinstance(x, (ast.Break, ast.Continue, ast.Return, ast.Raise, ast.Try)):
        straight = False
  return chain, straight


def executions(walker, fnode, stmt, par=None):
  """Number of times stmt runs per call, as a Poly in len() atoms, or None when it depends on data."""
  par = par or parents(fnode)
  chain, straight = enclosing_fors(fnode, stmt, par)
  if not straight:
    return None
  tot = Poly.const(1)
  for lp in chain:
    info = [i for i in walker.loop_info.values() if i["node"] is lp]
    if not info or info[0]["iter"] is None:
      return None
    tc = trip_count(info[0]["iter"])
    if tc is None:
      return None
    tot = tot * tc
  return tot
