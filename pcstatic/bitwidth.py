"""Bit-width abstract interpretation of RandomBits bodies (DESIGN 2.7).

Works on the terms produced by the symbolic walker: for every path to `return` and every residue
r of n modulo c (c = lcm of the moduli the body tests), n is written c*q + r and an upper bound on
the bit length of the returned integer is derived as a linear form in q.  Obligation: bound <= n."""
from __future__ import annotations
import ast, math
from fractions import Fraction
from .poly import Poly, Atom, P
from .sym import Const, Seq, as_poly, mk, rebuild
from . import sym


class Unknown(Exception):
  pass


def lit_of(p):
  a = p.as_atom() if isinstance(p, Poly) else None
  if a is not None and a.kind == "lit":
    return a.args[0]
  return None


def is_from_bytes(a):
  return a.kind == "pm" and lit_of(a.args[1]) == "from_bytes" and repr(a.args[0]) == "glob('int')"


class PathCtx:
  def __init__(self, walker, facts, nparam, q, c, r, inst=None):
    self.w = walker
    self.facts = facts
    self.n = nparam
    self.q = q
    self.c = c
    self.r = r
    self.inst = inst or {}     # attribute name -> int: one concrete instance of the class (constructor arguments of a registry entry)

  def subst(self, p):
    """n := c*q + r, then re-normalise (folds mod/fdiv on the residue)."""
    if not isinstance(p, Poly):
      return p
    p2 = p.deep_subst(self.n.as_atom(), self.q * self.c + self.r)
    if self.inst:
      for a in list(p2.all_atoms()):
        if a.kind == "attr" and len(a.args) == 2 and repr(a.args[0]) == "param('self')" and a.args[1] in self.inst:
          p2 = p2.deep_subst(a, Poly.const(self.inst[a.args[1]]))
    return self.simp(rebuild(p2))

  def simp(self, p):
    """fold fdiv(c*q + k, d) and mod(c*q + k, d) when d | c."""
    changed = True
    while changed:
      changed = False
      for a in list(p.all_atoms()):
        if a.kind in ("fdiv", "mod") and len(a.args) == 2:
          num, den = a.args
          d = den.as_int() if isinstance(den, Poly) else None
          if d is None or d <= 0:
            continue
          lin = self.linear_in_q(num)
          if lin is None:
            continue
          cq, k = lin
          if cq % d != 0:
            continue
          if a.kind == "fdiv":
            val = self.q * (cq // d) + (k // d)
          else:
            val = Poly.const(k % d)
          p2 = rebuild(p.deep_subst(a, val))
          if p2 != p:
            p = p2
            changed = True
            break
    return p

  def linear_in_q(self, p):
    """p == cq*q + k with integer cq, k -> (cq, k) else None."""
    qa = self.q.as_atom()
    cq = 0
    k = 0
    for mono, coef in p.t.items():
      if coef.denominator != 1:
        return None
      if mono == ():
        k = int(coef)
      elif len(mono) == 1 and mono[0][0] == qa and mono[0][1] == 1:
        cq = int(coef)
      else:
        return None
    return cq, k

  def feasible(self):
    """False when a path fact contradicts the residue."""
    for f in self.facts:
      if f[0] == "cmp" and isinstance(f[2], Poly) and isinstance(f[3], Poly):
        a, b = self.subst(f[2]), self.subst(f[3])
        d = a - b
        la = self.linear_in_q(d)
        if la is None:
          continue
        cq, k = la
        if cq == 0:
          ok = {"Eq": k == 0, "NotEq": k != 0, "Lt": k < 0, "LtE": k <= 0, "Gt": k > 0, "GtE": k >= 0}.get(f[1], True)
          if not ok:
            return False
      if f[0] in ("truthy", "falsy") and isinstance(f[1], Poly):
        v = self.subst(f[1])
        la = self.linear_in_q(v)
        if la is not None and la[0] == 0:
          if (la[1] != 0) != (f[0] == "truthy"):
            return False
    return True

  # ---- known equalities on lengths
  def length_from_facts(self, b):
    """Upper bound for len(b) from an equality fact that mentions len(b) linearly."""
    la = Atom("len", b)
    for f in self.facts:
      if f[0] == "cmp" and f[1] in ("Eq", "LtE", "Lt", "GtE", "Gt") and isinstance(f[2], Poly) and isinstance(f[3], Poly):
        d = f[2] - f[3]
        if f[1] in ("GtE", "Gt"):
          d = -d                      # d <= 0 (or < 0)
        if la in d.atoms():
          if f[1] != "Eq" and not d.t.get(((la, 1),), 0) > 0:
            continue                  # an inequality bounds len(b) from above only when its coefficient is positive
          # d = coef*len + rest = 0
          coef = None
          rest = Poly()
          for mono, c in d.t.items():
            if mono == ((la, 1),):
              coef = c
            else:
              if any(x == la for x, _ in mono):
                coef = None
                rest = None
                break
              rest = rest + Poly({mono: c})
          if coef is None or rest is None:
            continue
          return self.subst(rest * (Fraction(-1) / coef))
    return None


class WidthAnalysis:
  def __init__(self, walker, nparam):
    self.w = walker
    self.n = nparam
    self.q = P("q")
    self.growth = self.loop_growth()
    self.wgrowth = self.while_growth()

  # ------------------------------------------------------------------ loop summaries
  def loop_growth(self):
    """after-loop symbol -> (kind, pre value, per-iteration growth, trip count term)."""
    out = {}
    w = self.w
    for info in w.loop_info.values():
      n = info["node"]
      if not isinstance(n, ast.For):
        continue
      for visit in info.get("visits", []):
        itv = as_poly(visit["iter"]).as_atom()
        if itv is None or itv.kind != "range" or len(itv.args) != 1:
          continue
        trips = itv.args[0]
        paths = [bp for bp in info["body_paths"] if bp[4] is visit]
        if not paths or any(kind not in ("fall", "continue") for kind, _, _, _, _ in paths):
          continue
        for var, after in visit.get("after_env", {}).items():
          if not isinstance(after, Poly) or after.as_atom() is None:
            continue
          per = set()
          only_elem_stores = True
          n_stores = 0
          for kind, val, s, since, _ in paths:
            evs = [w.events[i] for i in s.trace[since:]]
            g = 0
            okp = True
            for e in evs:
              if e.kind in ("mutate",) and isinstance(e.data["target"], ast.Name) and e.data["target"].id == var:
                only_elem_stores = False
              elif e.kind in ("assign", "augassign") and e.data["name"] == var:
                only_elem_stores = False
              elif e.kind in ("store", "augstore") and isinstance(e.data["target"], ast.Subscript) and isinstance(e.data["target"].value, ast.Name) \
                  and e.data["target"].value.id == var:
                n_stores += 1
                if isinstance(e.data["target"].slice, ast.Slice):
                  only_elem_stores = False
            for e in evs:
              if e.kind == "mutate" and isinstance(e.data["target"], ast.Name) and e.data["target"].id == var:
                if e.data["method"] == "append":
                  g += 1
                else:
                  okp = False
              elif e.kind in ("assign", "augassign") and e.data["name"] == var:
                okp = False
              elif e.kind == "store" and isinstance(e.data["target"].value, ast.Name) and e.data["target"].value.id == var:
                pass   # element / equal-size slice store keeps the length (checked by the caller for bytes)
            per.add(g if okp else None)
          if only_elem_stores and n_stores:
            out[after.as_atom()] = ("same", visit["pre_env"].get(var), 0, trips)   # element stores keep the length
          elif len(per) == 1 and None not in per:
            out[after.as_atom()] = ("list", visit["pre_env"].get(var), per.pop(), trips)
    return out

  def while_growth(self):
    """after-loop symbol -> (pre value, chunk term, k, bound) for `while k * len(x) < bound: x += chunk` (every pass appends one chunk)."""
    out = {}
    w = self.w
    for info in w.loop_info.values():
      if not isinstance(info["node"], ast.While):
        continue
      for visit in info.get("visits", []):
        paths = [bp for bp in info["body_paths"] if bp[4] is visit]
        if not paths or any(kind != "fall" for kind, _, _, _, _ in paths):
          continue
        for var, after in visit.get("after_env", {}).items():
          head = visit["head"].env.get(var)
          if not isinstance(after, Poly) or after.as_atom() is None or not isinstance(head, Poly) or head.as_atom() is None:
            continue
          chunks = set()
          conds = set()
          for kind, val, s_, since, _ in paths:
            nv = s_.env.get(var)
            if not isinstance(nv, Poly):
              chunks.add(None)
              continue
            d = nv - head
            chunks.add(d if d.as_atom() is not None else None)
            cnd = [c_ for c_, pol, node in s_.pc if node is info["node"] and pol]
            la = Poly.atom(Atom("len", head))
            hit = None
            for c_ in cnd:
              if c_[0] == "cmp" and c_[1] == "Lt" and isinstance(c_[2], Poly) and isinstance(c_[3], Poly) and len(c_[2].t) == 1:
                (mono, coef), = c_[2].t.items()
                if mono == la.t and False:
                  pass
                if len(mono) == 1 and mono[0][0] == Atom("len", head) and mono[0][1] == 1 and coef.denominator == 1 and coef > 0:
                  hit = (int(coef), c_[3])
            conds.add(hit)
          if len(chunks) == 1 and None not in chunks and len(conds) == 1 and None not in conds:
            k, bound = next(iter(conds))
            out[after.as_atom()] = (visit["pre_env"].get(var), next(iter(chunks)), k, bound)
    return out

  # ------------------------------------------------------------------ lengths
  def list_len(self, b, cx):
    """number of elements of list term b (upper bound)."""
    if isinstance(b, Seq):
      return Poly.const(len(b.items))
    b = as_poly(b)
    a = b.as_atom()
    if a is None:
      raise Unknown("list length of %r" % (b,))
    if a in self.growth and self.growth[a][0] == "list":
      kind, pre, g, trips = self.growth[a]
      pl = self.list_len(pre, cx) if pre is not None else None
      if pl is None:
        raise Unknown("pre-loop length")
      return pl + cx.subst(trips) * g
    if a.kind == "seq":
      return Poly.const(len(a.args))
    raise Unknown("list length of %r" % (b,))

  def bytes_len(self, b, cx):
    """(upper bound on len(b), mask) where mask = (index, bits) of a masked byte or None."""
    b = as_poly(b)
    a = b.as_atom()
    if a is None:
      # bytes concatenation: sum of parts
      raise Unknown("byte string %r" % (b,))
    if a.kind == "upd":
      L, m = self.bytes_len(a.args[0], cx)
      idx = cx.subst(a.args[1])
      v = a.args[2]
      va = v.as_atom()
      mask = None
      if va is not None and va.kind == "band":
        ops = list(va.args)
        elem = mk("idx", a.args[0], a.args[1])
        others = [x for x in ops if x != elem]
        if len(others) == 1 and len(ops) == 2:
          bits = self.mask_bits(others[0], cx)
          if bits is not None:
            mask = (idx, bits)
      return L, (mask or m)
    if a.kind == "slice":
      base, lo, hi, step = a.args
      if lit_of(lo) == "None" and lit_of(step) == "None" and lit_of(hi) != "None":
        k = cx.subst(hi)
        return k, None
      raise Unknown("slice %r" % (b,))
    if a.kind in ("extcall",) and lit_of(a.args[0]) in ("os.urandom",):
      return cx.subst(a.args[1]), None
    if a.kind == "bytearray":
      if not a.args:
        return Poly.const(0), None
      return self.bytes_len_of_arg(a.args[0], cx), None
    if a.kind in ("mcall", "pm") and lit_of(a.args[1]) in ("digest", "bytes") and len(a.args) >= 3:
      return cx.subst(a.args[2]), None
    if a in self.growth and self.growth[a][0] == "same":
      return self.bytes_len(self.growth[a][1], cx)
    if a.kind == "pm" and lit_of(a.args[1]) == "join":
      g = a.args[2].as_atom()
      if g is not None and g.kind == "map":
        elt, bv, src = g.args
        ea = elt.as_atom()
        if ea is not None and ea.kind == "pm" and lit_of(ea.args[1]) == "to_bytes":
          chunk = cx.subst(ea.args[2])
          sep, _ = self.bytes_len(a.args[0], cx)
          if sep.as_int() != 0:
            raise Unknown("join separator")
          return self.list_len(src, cx) * chunk, None
      raise Unknown("join of %r" % (a.args[2],))
    if a.kind == "pm" and lit_of(a.args[1]) == "to_bytes":
      return cx.subst(a.args[2]), None
    L = cx.length_from_facts(b)
    if L is not None:
      return L, None
    if a in self.wgrowth:
      pre, chunk, k, bound = self.wgrowth[a]
      L0, _ = self.bytes_len(pre, cx) if pre is not None else (None, None)
      if L0 is None or L0.as_int() != 0:
        raise Unknown("length before the loop")
      C, _ = self.bytes_len(chunk, cx)
      C = cx.subst(C)
      Ci = C.as_int()
      if Ci is None or Ci <= 0:
        raise Unknown("length of byte string %r: chunk size %r of the filling loop is not a constant" % (b, C))
      lin = cx.linear_in_q(cx.subst(bound))
      if lin is None:
        raise Unknown("loop bound %r" % (bound,))
      cq, r0 = lin
      step = k * Ci
      if cq % step != 0:
        raise Unknown("length of byte string %r: needs residues modulo %d" % (b, step))
      # least multiple of the chunk with k * L >= bound
      return (cx.q * (cq // step) + (-(-r0 // step))) * Ci, None
    raise Unknown("length of byte string %r" % (b,))

  def bytes_len_of_arg(self, x, cx):
    xi = cx.subst(x)
    la = cx.linear_in_q(xi)
    if la is not None:
      return xi     # bytearray(int) -> that many zero bytes
    L, _ = self.bytes_len(x, cx)
    return L

  def mask_bits(self, m, cx):
    """m == 2^k - 1 -> k (Poly) else None."""
    m2 = cx.subst(m)
    i = m2.as_int()
    if i is not None:
      if i >= 0 and (i + 1) & i == 0:
        return Poly.const(i.bit_length())
      return None
    p1 = m2 + 1
    a = p1.as_atom()
    if a is not None and a.kind == "shl" and a.args[0].as_int() == 1:
      return cx.subst(a.args[1])
    if a is not None and a.kind == "pow" and a.args[0].as_int() == 2:
      return cx.subst(a.args[1])
    return None

  # ------------------------------------------------------------------ widths
  def width(self, v, cx):
    """upper bound on bit_length(v) as a Poly in q; raises Unknown."""
    if isinstance(v, Const):
      if isinstance(v.v, int) and not isinstance(v.v, bool) and v.v >= 0:
        return Poly.const(v.v.bit_length())
      raise Unknown("non-integer result %r" % (v,))
    p = as_poly(v)
    i = p.as_int()
    if i is not None:
      if i < 0:
        raise Unknown("negative constant")
      return Poly.const(i.bit_length())
    a = p.as_atom()
    if a is None:
      raise Unknown("arithmetic result %r" % (p,))
    if is_from_bytes(a):
      order = lit_of(a.args[3]) if len(a.args) > 3 else None
      if order not in ("'little'", "'big'"):
        raise Unknown("byte order %r" % (order,))
      L, mask = self.bytes_len(a.args[2], cx)
      full = L * 8
      if mask is not None:
        idx, bits = mask
        ii = idx.as_int()
        top = (order == "'big'" and ii == 0) or (order == "'little'" and (ii == -1 or (idx - (L - 1)).is_zero()))
        if top:
          return L * 8 - 8 + bits
        return full   # a masked byte that is not the most significant one does not bound the integer
      return full
    if a.kind == "shr":
      k = cx.subst(a.args[1])
      la = cx.linear_in_q(k)
      if la is None or la[0] < 0 or (la[0] == 0 and la[1] < 0):
        raise Unknown("shift amount %r" % (k,))
      return self.width(a.args[0], cx) - k
    if a.kind == "band":
      for x in a.args:
        bits = self.mask_bits(x, cx)
        if bits is not None:
          return bits
      ws = []
      for x in a.args:
        try:
          ws.append(self.width(x, cx))
        except Unknown:
          pass
      if ws:
        return ws[0]
      raise Unknown("and without a mask")
    if a.kind == "mod":
      m = cx.subst(a.args[1])
      ma = m.as_atom()
      if ma is not None and ma.kind in ("pow", "shl") and (ma.args[0].as_int() == 2 if ma.kind == "pow" else ma.args[0].as_int() == 1):
        return cx.subst(ma.args[1])
      mi = m.as_int()
      if mi is not None and mi > 0:
        return Poly.const((mi - 1).bit_length())
      raise Unknown("modulus %r" % (m,))
    if a.kind in ("extcall", "mcall") and any(lit_of(x) in ("random.getrandbits", "getrandbits") for x in a.args if isinstance(x, Poly)):
      args = [x for x in a.args if isinstance(x, Poly) and lit_of(x) is None and x.as_atom() is not None and x.as_atom().kind != "u" or (isinstance(x, Poly) and x.as_atom() is None)]
      for x in a.args[1:]:
        if isinstance(x, Poly) and lit_of(x) is None and not (x.as_atom() is not None and x.as_atom().kind == "u"):
          return cx.subst(x)
      raise Unknown("getrandbits argument")
    raise Unknown("no width rule for %r" % (p,))


def moduli_in(walker, n):
  """constants d such that mod(n', d) / fdiv(n', d) with n' linear in n occur in the function."""
  ds = set()
  na = n.as_atom()
  def scan(p):
    if not isinstance(p, Poly):
      return
    for a in p.all_atoms():
      if a.kind in ("mod", "fdiv") and len(a.args) == 2 and isinstance(a.args[1], Poly):
        d = a.args[1].as_int()
        if d and d > 1 and na in a.args[0].all_atoms() and d <= 4096:
          ds.add(d)
  for e in walker.events:
    for f in e.facts:
      for x in f[1:]:
        scan(x) if isinstance(x, Poly) else None
    for v in e.data.values():
      if isinstance(v, Poly):
        scan(v)
      elif isinstance(v, list):
        for y in v:
          if isinstance(y, Poly):
            scan(y)
  return ds


def analyse(repo, func, inst=None, extra_moduli=()):
  """-> list of dicts {path, residue, ok (True/False/None), detail}; inst fixes self.<attr> to the integers of one constructed instance."""
  w = sym.Walker(repo, func)
  w.run()
  params = func.params()
  if not params:
    return [], w
  n = P("param", params[0])
  wa = WidthAnalysis(w, n)
  ds = moduli_in(w, n)
  ds |= set(extra_moduli)
  c = 1
  for d in ds:
    c = c * d // math.gcd(c, d)
  if c > 4096:
    c = 8
  results = []
  rets = [e for e in w.events if e.kind == "return"]
  for e in rets:
    key = sym.ast.unparse(e.node) if e.node is not None else "implicit return"
    conds = []
    for cnd, pol, node in e.state.pc:
      if node is not None and hasattr(node, "test"):
        conds.append(("" if pol else "not ") + " ".join(ast.unparse(node.test).split()))
    for r in range(c):
      cx = PathCtx(w, e.facts, n, wa.q, c, r, inst)
      if not cx.feasible():
        continue
      try:
        W = wa.width(e.data["value"], cx)
      except Unknown as u:
        results.append({"construct": key, "path": conds, "residue": "n = %d*q + %d" % (c, r), "ok": None, "detail": str(u)})
        continue
      diff = W - (wa.q * c + r)
      la = cx.linear_in_q(diff)
      if la is None:
        results.append({"construct": key, "path": conds, "residue": "n = %d*q + %d" % (c, r), "ok": None,
                        "detail": "bound %r is not linear in q" % (W,)})
        continue
      cq, k = la
      # q >= 0 (q >= 1 when r == 0 since n >= 1)
      qmin = 1 if r == 0 else 0
      worst = cq * qmin + k if cq <= 0 else None
      ok = cq <= 0 and worst <= 0
      results.append({"construct": key, "path": conds, "residue": "n = %d*q + %d" % (c, r), "ok": ok,
                      "detail": "bit_length(result) <= %s%s" % (fmt_lin(cx, W), "" if ok else " > n = %d*q + %d" % (c, r))})
  return results, w


def fmt_lin(cx, W):
  la = cx.linear_in_q(W)
  if la is None:
    return repr(W)
  return "%d*q + %d" % la
