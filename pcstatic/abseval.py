"""Abstract evaluation on the empty batch (DESIGN 2.6): interprocedural constant propagation over the
domain {EMPTY, Const(c), KList(n), Tuple, Obj(class), Unknown}.  Reports only *definite* exceptions."""
from __future__ import annotations
import ast, math, operator
from .core import Incomplete
from .loader import Cls, Func, Module

MAX_DEPTH = 9


class A:
  __slots__ = ("k", "v")

  def __init__(self, k, v=None):
    self.k = k
    self.v = v

  def __repr__(self):
    if self.k == "const":
      return "Const(%r)" % (self.v,)
    if self.k == "klist":
      return "ListOf(%d)" % self.v
    if self.k == "tuple":
      return "Tuple%r" % (self.v,)
    if self.k == "obj":
      return "Obj(%s)" % self.v
    return self.k.upper()


EMPTY = A("empty")
UNK = A("unk")


def C(v):
  return A("const", v)


def KL(n):
  return EMPTY if n <= 0 else A("klist", n)


class Definite(Exception):
  def __init__(self, msg, chain, node=None):
    super().__init__(msg)
    self.msg = msg
    self.chain = chain
    self.node = node


class Ret(Exception):
  def __init__(self, v):
    self.v = v


class Brk(Exception):
  pass


class Cnt(Exception):
  pass


def truth(a):
  if a.k == "empty":
    return False
  if a.k in ("klist", "obj"):
    return True
  if a.k == "tuple":
    return bool(a.v)
  if a.k == "const":
    try:
      return bool(a.v)
    except Exception:
      return None
  return None


BINOPS = {ast.Add: operator.add, ast.Sub: operator.sub, ast.Mult: operator.mul, ast.FloorDiv: operator.floordiv,
          ast.Mod: operator.mod, ast.Pow: operator.pow, ast.LShift: operator.lshift, ast.RShift: operator.rshift,
          ast.Div: operator.truediv, ast.BitOr: operator.or_, ast.BitAnd: operator.and_, ast.BitXor: operator.xor}
CMPOPS = {ast.Lt: operator.lt, ast.LtE: operator.le, ast.Gt: operator.gt, ast.GtE: operator.ge,
          ast.Eq: operator.eq, ast.NotEq: operator.ne}
PURE_CONST = {"int": int, "math.sqrt": math.sqrt, "abs": abs, "gmpy2.mpz": int, "bool": bool, "float": float,
              "math.isqrt": math.isqrt, "gmpy2.isqrt": math.isqrt, "math.log": math.log, "str": str}
NOOP_METHODS = {"warning", "info", "debug", "error", "sort", "reverse"}


class Evaluator:
  def __init__(self, repo, const_tables=None):
    self.repo = repo
    self.chain = []
    self.maybe = 0
    self.possible = []
    self.assigned = [set()]
    self.const_tables = const_tables or {}   # dotted name -> list of value-class tuples for definite loops
    self.calls = 0
    self.modstack = []
    self.maybe_returns = [[]]
    self.loop_exit_seen = False

  # ------------------------------------------------------------------ errors
  def err(self, msg, node):
    where = "%s: %s @ `%s`" % (" -> ".join(self.chain), msg, ast.unparse(node)[:70] if node is not None else "")
    if self.maybe == 0:
      raise Definite(msg, where, node)
    if where not in self.possible:
      self.possible.append(where)
    return UNK

  @property
  def module(self):
    return self.modstack[-1]

  # ------------------------------------------------------------------ calls
  def call_func(self, f: Func, args, kw, selfv=None):
    if len(self.chain) >= MAX_DEPTH or f.where in self.chain:
      return UNK
    self.calls += 1
    env = {}
    node = f.node
    params = [a.arg for a in node.args.args]
    if f.cls is not None and params and params[0] == "self":
      env["self"] = selfv if selfv is not None else A("obj", f.cls.name)
      params = params[1:]
    defaults = node.args.defaults
    allp = [a.arg for a in node.args.args]
    for i, p in enumerate(params):
      if i < len(args):
        env[p] = args[i]
      elif p in kw:
        env[p] = kw[p]
      else:
        di = allp.index(p) - (len(allp) - len(defaults))
        if di >= 0:
          self.modstack.append(f.module)
          try:
            env[p] = self.expr(defaults[di], {})
          finally:
            self.modstack.pop()
        else:
          env[p] = UNK
    self.chain.append(f.where)
    self.modstack.append(f.module)
    self.assigned.append(set())
    self.maybe_returns.append([])
    try:
      self.block(node.body, env)
      r = C(None)
    except Ret as r_:
      r = r_.v
    except (Brk, Cnt, MaybeExit):
      r = UNK
    finally:
      self.chain.pop()
      self.modstack.pop()
      self.assigned.pop()
      mr = self.maybe_returns.pop()
    for v in mr:
      if repr(v) != repr(r):
        return UNK
    return r

  def resolve_call(self, e, env):
    """-> (Func, selfv) or None"""
    f = e.func
    if isinstance(f, ast.Attribute):
      base = f.value
      if isinstance(base, ast.Name) and base.id == "self" and "self" in env and env["self"].k == "obj":
        c = self.find_class(env["self"].v)
        if c is not None:
          m = self.repo.find_method(c, f.attr)
          if m is not None:
            return m, env["self"]
      if isinstance(base, ast.Name) and base.id in env:
        v = env[base.id]
        if v.k == "obj":
          c = self.find_class(v.v)
          if c is not None:
            m = self.repo.find_method(c, f.attr)
            if m is not None:
              return m, v
        return self.unique_method(f.attr, v)
      r = self.repo.resolve_expr(self.module, f)
      if isinstance(r, Func):
        return r, None
      if not isinstance(base, ast.Name):
        v = self.expr(base, env)
        if v.k == "obj":
          c = self.find_class(v.v)
          if c is not None:
            m = self.repo.find_method(c, f.attr)
            if m is not None:
              return m, v
        return self.unique_method(f.attr, v)
      return None
    if isinstance(f, ast.Name) and f.id not in env:
      r = self.repo.resolve_expr(self.module, f)
      if isinstance(r, Func):
        return r, None
    return None

  def unique_method(self, name, recv):
    """A method name defined by exactly one class of the package (receiver of unknown class)."""
    if recv.k not in ("unk", "obj"):
      return None
    if name in ("Check", "get", "items", "append", "add", "update", "pop", "keys", "values", "format", "join"):
      return None
    found = []
    for m in self.repo.modules.values():
      for c in m.classes.values():
        if name in c.methods:
          found.append(c.methods[name])
    if len(found) == 1:
      return found[0], (recv if recv.k == "obj" else A("obj", found[0].cls.name))
    return None

  def find_class(self, name):
    for m in self.repo.modules.values():
      if name in m.classes:
        return m.classes[name]
    return None

  # ------------------------------------------------------------------ expressions
  def length(self, a):
    if a.k == "empty":
      return C(0)
    if a.k == "klist":
      return C(a.v)
    if a.k == "tuple":
      return C(len(a.v))
    if a.k == "const" and isinstance(a.v, (tuple, str, bytes, list)):
      return C(len(a.v))
    return UNK

  def expr(self, e, env):
    if isinstance(e, ast.Constant):
      return C(e.value)
    if isinstance(e, ast.Name):
      if e.id in env:
        return env[e.id]
      if e.id in ("True", "False", "None"):
        return C({"True": True, "False": False, "None": None}[e.id])
      return self.global_value(e)
    if isinstance(e, (ast.List, ast.Set)):
      for x in e.elts:
        self.expr(x, env)
      return KL(len(e.elts))
    if isinstance(e, ast.Tuple):
      return A("tuple", [self.expr(x, env) for x in e.elts])
    if isinstance(e, ast.Dict):
      return EMPTY if not e.keys else UNK
    if isinstance(e, (ast.ListComp, ast.SetComp, ast.DictComp, ast.GeneratorExp)):
      it = self.expr(e.generators[0].iter, env)
      if it.k == "empty":
        return EMPTY
      if it.k == "klist" and not e.generators[0].ifs and len(e.generators) == 1 and isinstance(e, (ast.ListComp, ast.GeneratorExp)):
        return KL(it.v)
      return UNK
    if isinstance(e, ast.BinOp):
      l = self.expr(e.left, env)
      r = self.expr(e.right, env)
      if isinstance(e.op, ast.Mult):
        for a, b in ((l, r), (r, l)):
          if a.k in ("klist", "empty") and b.k == "const" and isinstance(b.v, int) and not isinstance(b.v, bool):
            return KL((a.v if a.k == "klist" else 0) * max(b.v, 0))
          if a.k == "klist" and b.k == "unk":
            return UNK
        for a, b in ((l, r), (r, l)):
          if a.k == "const" and isinstance(a.v, int) and not isinstance(a.v, bool) and a.v == 0 and b.k == "unk":
            return C(0)   # 0 * <unknown number> == 0
      if isinstance(e.op, ast.Add) and l.k in ("klist", "empty") and r.k in ("klist", "empty"):
        return KL((l.v or 0) + (r.v or 0))
      if l.k == "const" and r.k == "const":
        try:
          if isinstance(e.op, ast.Pow) and isinstance(r.v, int) and abs(r.v) > 4096:
            return UNK
          if isinstance(e.op, ast.LShift) and isinstance(r.v, int) and r.v > 1 << 16:
            return UNK
          return C(BINOPS[type(e.op)](l.v, r.v))
        except ZeroDivisionError:
          return self.err("ZeroDivisionError", e)
        except Exception:
          return UNK
      if isinstance(e.op, (ast.FloorDiv, ast.Mod, ast.Div)) and r.k == "const" and r.v == 0 and isinstance(r.v, int) and l.k in ("const", "unk"):
        if not (isinstance(e.op, ast.Mod) and l.k == "const" and isinstance(l.v, str)):
          return self.err("ZeroDivisionError", e)
      return UNK
    if isinstance(e, ast.UnaryOp):
      v = self.expr(e.operand, env)
      if isinstance(e.op, ast.Not):
        t = truth(v)
        return UNK if t is None else C(not t)
      if isinstance(e.op, ast.USub) and v.k == "const" and isinstance(v.v, (int, float)):
        return C(-v.v)
      return UNK
    if isinstance(e, ast.BoolOp):
      vals = [truth(self.expr(v, env)) for v in e.values]
      if isinstance(e.op, ast.Or):
        if any(v is True for v in vals):
          return C(True) if all(v is not None for v in vals[:vals.index(True)]) or True else UNK
        if all(v is False for v in vals):
          return C(False)
      else:
        if any(v is False for v in vals):
          return C(False)
        if all(v is True for v in vals):
          return C(True)
      return UNK
    if isinstance(e, ast.Compare):
      if len(e.ops) != 1:
        for c in e.comparators:
          self.expr(c, env)
        self.expr(e.left, env)
        return UNK
      l = self.expr(e.left, env)
      r = self.expr(e.comparators[0], env)
      op = e.ops[0]
      if isinstance(op, (ast.Is, ast.IsNot)) and r.k == "const" and r.v is None:
        if l.k in ("empty", "klist", "obj", "tuple"):
          return C(isinstance(op, ast.IsNot))
        if l.k == "const":
          return C((l.v is None) == isinstance(op, ast.Is))
        return UNK
      if isinstance(op, (ast.In, ast.NotIn)) and r.k == "empty":
        return C(isinstance(op, ast.NotIn))
      if l.k == "const" and r.k == "const" and type(op) in CMPOPS:
        try:
          return C(CMPOPS[type(op)](l.v, r.v))
        except Exception:
          return UNK
      if isinstance(op, (ast.Eq, ast.NotEq)) and {l.k, r.k} <= {"empty", "klist"}:
        if l.k != r.k or (l.k == "klist" and l.v != r.v):
          return C(isinstance(op, ast.NotEq))
      return UNK
    if isinstance(e, ast.Subscript):
      v = self.expr(e.value, env)
      if isinstance(e.slice, ast.Slice):
        for x in (e.slice.lower, e.slice.upper, e.slice.step):
          if x is not None:
            self.expr(x, env)
        return EMPTY if v.k == "empty" else UNK
      idx = self.expr(e.slice, env)
      if v.k == "empty":
        return self.err("IndexError/KeyError: subscript of an empty container", e)
      if v.k == "klist" and idx.k == "const" and isinstance(idx.v, int) and not (-v.v <= idx.v < v.v):
        return self.err("IndexError: index %d out of range for length %d" % (idx.v, v.v), e)
      if v.k == "tuple" and idx.k == "const" and isinstance(idx.v, int):
        if not (-len(v.v) <= idx.v < len(v.v)):
          return self.err("IndexError: tuple index out of range", e)
        return v.v[idx.v]
      if v.k == "const" and v.v is None:
        return self.err("TypeError: 'NoneType' object is not subscriptable", e)
      return UNK
    if isinstance(e, ast.Attribute):
      v = None
      if isinstance(e.value, ast.Name) and e.value.id not in env:
        return self.global_value(e)
      v = self.expr(e.value, env)
      if v.k == "const" and v.v is None:
        return self.err("AttributeError: 'NoneType' object has no attribute '%s'" % e.attr, e)
      return UNK
    if isinstance(e, ast.IfExp):
      t = truth(self.expr(e.test, env))
      if t is None:
        self.maybe += 1
        try:
          self.expr(e.body, env)
          self.expr(e.orelse, env)
        finally:
          self.maybe -= 1
        return UNK
      return self.expr(e.body if t else e.orelse, env)
    if isinstance(e, ast.Call):
      return self.call(e, env)
    if isinstance(e, ast.JoinedStr):
      return UNK
    if isinstance(e, ast.Starred):
      return self.expr(e.value, env)
    return UNK

  def global_value(self, e):
    r = self.repo.resolve_expr(self.module, e)
    if isinstance(r, tuple) and r[0] == "const":
      m, name = r[1], r[2]
      node = m.consts[name]
      key = "%s.%s" % (m.short, name)
      if key in self.const_tables:
        return A("table", key)
      if isinstance(node, ast.Constant):
        return C(node.value)
      if isinstance(node, ast.Tuple):
        try:
          self.modstack.append(m)
          return A("tuple", [self.expr(x, {}) for x in node.elts])
        finally:
          self.modstack.pop()
      if isinstance(node, (ast.BinOp, ast.UnaryOp)):
        self.modstack.append(m)
        try:
          return self.expr(node, {})
        finally:
          self.modstack.pop()
    return UNK

  def call(self, e, env):
    fname = None
    r = self.repo.resolve_expr(self.module, e.func) if not (isinstance(e.func, ast.Name) and e.func.id in env) else None
    if isinstance(r, tuple) and r[0] == "ext":
      fname = r[1]
    elif isinstance(e.func, ast.Name) and r is None:
      fname = e.func.id
    args = []
    for a in e.args:
      v = self.expr(a, env)
      args.append(v)
    kw = {k.arg: self.expr(k.value, env) for k in e.keywords if k.arg}
    if fname == "len" and args:
      return self.length(args[0])
    if fname in ("list", "sorted", "tuple", "reversed", "enumerate", "iter", "set", "frozenset"):
      if not args:
        return EMPTY
      a = args[0]
      if a.k == "empty":
        return EMPTY
      if a.k == "klist" and fname not in ("set", "frozenset"):
        return a
      if a.k == "klist":
        return UNK
      if a.k == "tuple" and fname in ("list", "tuple", "sorted"):
        return KL(len(a.v))
      return UNK
    if fname in ("zip",):
      if any(a.k == "empty" for a in args):
        return EMPTY
      return UNK
    if fname == "itertools.zip_longest":
      if args and all(a.k == "empty" for a in args):
        return EMPTY
      return UNK
    if fname == "range":
      if args and all(a.k == "const" and isinstance(a.v, int) and not isinstance(a.v, bool) for a in args):
        try:
          return KL(len(range(*[a.v for a in args])))
        except Exception:
          return UNK
      if any(a.k == "const" and not isinstance(a.v, int) for a in args) or any(a.k in ("empty", "klist", "tuple") for a in args):
        return self.err("TypeError: range() argument is not an integer", e)
      return UNK
    if fname in PURE_CONST and args and args[0].k == "const" and len(args) == 1:
      try:
        return C(PURE_CONST[fname](args[0].v))
      except Exception:
        return self.err("%s(%r) raises" % (fname, args[0].v), e)
    if fname in ("min", "max") and len(args) == 1 and args[0].k == "empty" and "default" not in kw:
      return self.err("ValueError: %s() arg is an empty sequence" % fname, e)
    if fname in ("sum", "any", "all") and args and args[0].k == "empty":
      return C({"sum": 0, "any": False, "all": True}[fname])
    if fname == "collections.defaultdict" or fname == "dict" and not args:
      return EMPTY
    if fname == "isinstance":
      return UNK
    if isinstance(r, Cls):
      init = self.repo.find_method(r, "__init__")
      return A("obj", r.name)
    tgt = self.resolve_call(e, env)
    if tgt is not None:
      f, selfv = tgt
      return self.call_func(f, args, kw, selfv)
    if isinstance(e.func, ast.Attribute):
      m = e.func.attr
      recv = e.func.value
      rv = self.expr(recv, env) if not (isinstance(recv, ast.Name) and recv.id not in env) else self.global_value(recv)
      if rv.k == "const" and rv.v is None:
        return self.err("AttributeError: 'NoneType' object has no attribute '%s'" % m, e)
      if m == "pop" and rv.k == "empty":
        return self.err("IndexError: pop from an empty container", e)
      if m in ("items", "values", "keys"):
        if rv.k == "empty":
          return EMPTY
        if rv.k == "table":
          return A("tableiter", (rv.v, m))
        return UNK
      if m == "get" and rv.k == "table":
        return A("tablevalue", rv.v)
      if m in ("append", "add"):
        if isinstance(recv, ast.Name) and recv.id in env:
          self.assigned[-1].add(recv.id)
          if rv.k in ("klist", "empty"):
            env[recv.id] = KL((rv.v or 0) + 1) if self.maybe == 0 else UNK
          else:
            env[recv.id] = UNK
        return C(None)
      if m in ("update", "extend", "insert", "remove", "clear", "setdefault", "discard"):
        if isinstance(recv, ast.Name) and recv.id in env:
          self.assigned[-1].add(recv.id)
          env[recv.id] = UNK
        return UNK if m == "setdefault" else C(None)
      if m in NOOP_METHODS:
        return C(None)
    return UNK

  # ------------------------------------------------------------------ statements
  def assign(self, t, v, env, node):
    if isinstance(t, ast.Name):
      env[t.id] = v
      self.assigned[-1].add(t.id)
    elif isinstance(t, (ast.Tuple, ast.List)):
      if v.k == "tuple" and len(v.v) != len(t.elts) and not any(isinstance(x, ast.Starred) for x in t.elts):
        self.err("ValueError: cannot unpack %d values into %d targets" % (len(v.v), len(t.elts)), node)
      if v.k == "empty":
        self.err("ValueError: not enough values to unpack (empty)", node)
      if v.k == "const" and v.v is None:
        self.err("TypeError: cannot unpack non-iterable NoneType object", node)
      for i, x in enumerate(t.elts):
        self.assign(x, v.v[i] if v.k == "tuple" and i < len(v.v) else UNK, env, node)
    elif isinstance(t, ast.Subscript):
      base = self.expr(t.value, env)
      self.expr(t.slice, env) if not isinstance(t.slice, ast.Slice) else None
      if base.k == "empty" and not isinstance(t.slice, ast.Slice):
        # assignment into an empty *list* raises; an empty dict accepts it.  Only lists built by
        # `[x] * 0` / comprehension reach here as EMPTY with list provenance.
        if isinstance(t.value, ast.Name) and env.get("__dictlike__" + t.value.id):
          pass
        else:
          self.err("IndexError: list assignment index out of range (empty list)", node)
      if isinstance(t.value, ast.Name):
        self.assigned[-1].add(t.value.id)
    elif isinstance(t, ast.Attribute):
      base = self.expr(t.value, env)
      if base.k == "const" and base.v is None:
        self.err("AttributeError: 'NoneType' object has no attribute '%s'" % t.attr, node)

  def join(self, e1, e2):
    out = {}
    for k in set(e1) | set(e2):
      a, b = e1.get(k), e2.get(k)
      out[k] = a if (a is not None and b is not None and repr(a) == repr(b)) else UNK
    return out

  def block(self, stmts, env):
    for st in stmts:
      self.stmt(st, env)

  def stmt(self, st, env):
    if isinstance(st, ast.Assign):
      v = self.expr(st.value, env)
      # remember dict-like provenance so that `d[k] = v` on an empty dict is not flagged
      dictlike = isinstance(st.value, ast.Dict) or (isinstance(st.value, ast.Call) and ast.unparse(st.value.func) in
                                                     ("dict", "collections.defaultdict", "collections.OrderedDict"))
      for t in st.targets:
        self.assign(t, v, env, st)
        if isinstance(t, ast.Name):
          env["__dictlike__" + t.id] = dictlike or isinstance(st.value, ast.DictComp)
    elif isinstance(st, ast.AnnAssign):
      if st.value is not None:
        self.assign(st.target, self.expr(st.value, env), env, st)
    elif isinstance(st, ast.AugAssign):
      if isinstance(st.target, ast.Name):
        v = self.expr(ast.BinOp(left=ast.Name(id=st.target.id, ctx=ast.Load()), op=st.op, right=st.value), env)
      else:
        self.expr(st.value, env)
        v = UNK
      self.assign(st.target, v, env, st)
    elif isinstance(st, ast.Expr):
      self.expr(st.value, env)
    elif isinstance(st, ast.Return):
      raise Ret(self.expr(st.value, env) if st.value else C(None))
    elif isinstance(st, ast.Raise):
      self.err("raise " + (ast.unparse(st.exc)[:50] if st.exc else ""), st)
      raise Ret(UNK)
    elif isinstance(st, ast.Break):
      raise Brk()
    elif isinstance(st, ast.Continue):
      raise Cnt()
    elif isinstance(st, ast.If):
      t = truth(self.expr(st.test, env))
      if t is None:
        self.maybe += 1
        outs, exits = [], []
        try:
          for body in (st.body, st.orelse):
            e2 = dict(env)
            try:
              self.block(body, e2)
              outs.append(e2)
            except (Ret, Brk, Cnt) as ex:
              exits.append(ex)
        finally:
          self.maybe -= 1
        if not outs:
          if len(exits) == 2 and isinstance(exits[0], Ret) and isinstance(exits[1], Ret):
            raise Ret(exits[0].v if repr(exits[0].v) == repr(exits[1].v) else UNK)
          if len(exits) == 2 and type(exits[0]) is type(exits[1]):
            raise exits[0]
          raise MaybeExit(exits)
        new = outs[0] if len(outs) == 1 else self.join(*outs)
        env.clear()
        env.update(new)
        for ex in exits:
          if isinstance(ex, Ret):
            self.maybe_returns[-1].append(ex.v)
          else:
            self.loop_exit_seen = True
      else:
        self.block(st.body if t else st.orelse, env)
    elif isinstance(st, (ast.For, ast.While)):
      self.loop(st, env)
    elif isinstance(st, ast.With):
      for it in st.items:
        v = self.expr(it.context_expr, env)
        if it.optional_vars is not None:
          self.assign(it.optional_vars, UNK, env, st)
      self.block(st.body, env)
    elif isinstance(st, ast.Try):
      self.maybe += 1
      try:
        self.block(st.body, env)
      finally:
        self.maybe -= 1
      self.block(st.finalbody, env)
    elif isinstance(st, ast.Delete):
      for t in st.targets:
        if isinstance(t, ast.Name):
          env.pop(t.id, None)
    elif isinstance(st, ast.Assert):
      pass
    else:
      pass

  def names_assigned_in(self, stmts):
    s = set()
    for n in ast.walk(ast.Module(body=list(stmts), type_ignores=[])):
      if isinstance(n, ast.Name) and isinstance(n.ctx, ast.Store):
        s.add(n.id)
    return s

  def loop(self, st, env):
    classes = None   # list of tuples of abstract values for a definite loop over a constant table
    if isinstance(st, ast.For):
      it = self.expr(st.iter, env)
      if it.k == "empty":
        self.block(st.orelse, env)
        return
      if it.k == "tableiter":
        key, how = it.v
        classes = self.const_tables[key][how]
      elif it.k == "tuple":
        if not it.v:
          self.block(st.orelse, env)
          return
        classes = [(x,) for x in it.v]
      elif it.k == "const" and it.v is None:
        self.err("TypeError: 'NoneType' object is not iterable", st)
    else:
      t = truth(self.expr(st.test, env))
      if t is False:
        self.block(st.orelse, env)
        return
    tnames = set()
    if isinstance(st, ast.For):
      tnames = {n.id for n in ast.walk(st.target) if isinstance(n, ast.Name)}
    runs = classes if classes is not None else [None]

    def bind(cls, e2):
      if isinstance(st, ast.For):
        if cls is None:
          self.assign(st.target, UNK, e2, st)
        elif len(cls) == 1 and not isinstance(st.target, (ast.Tuple, ast.List)):
          self.assign(st.target, cls[0], e2, st)
        else:
          self.assign(st.target, A("tuple", list(cls)), e2, st)

    if classes is not None and len(classes) <= 64:
      # constant table: execute the iterations in order, definitely, carrying the state along
      definite = True
      for cls in classes:
        inc = not definite
        if inc:
          self.maybe += 1
        self.loop_exit_seen = False
        work = dict(env) if inc else env
        try:
          bind(cls, work)
          try:
            self.block(st.body, work)
          except Cnt:
            pass
          except Brk:
            if definite:
              return
            definite = False
          except MaybeExit:
            definite = False
        finally:
          if inc:
            self.maybe -= 1
            j = self.join(env, work)   # the iteration may not have happened
            env.clear()
            env.update(j)
        if self.loop_exit_seen:
          definite = False
      self.loop_exit_seen = False
      if definite:
        self.block(st.orelse, env)
      return
    # phase 1: fixpoint over the set of havocked variables (names assigned on reachable paths only);
    # everything in "maybe" mode, possible-error notes discarded
    havoc = set()
    may_exit = False
    saved_possible = list(self.possible)
    for _ in range(10):
      base = dict(env)
      for a in havoc:
        base[a] = UNK
      assigned_all = set()
      may_exit = False
      self.maybe += 1
      try:
        for cls in runs:
          e2 = dict(base)
          self.assigned.append(set())
          try:
            bind(cls, e2)
            try:
              self.block(st.body, e2)
            except Cnt:
              pass
            except (Brk, MaybeExit):
              may_exit = True
            except Ret as r:
              may_exit = True
          finally:
            assigned_all |= self.assigned.pop()
      finally:
        self.maybe -= 1
      self.possible = list(saved_possible)
      assigned_all -= tnames
      if assigned_all <= havoc:
        break
      havoc |= assigned_all
    # phase 2: one run per value class with the havocked state; definite only for constant tables
    base = dict(env)
    for a in havoc:
      base[a] = UNK
    definite = classes is not None
    for cls in runs:
      e2 = dict(base)
      self.assigned.append(set())
      inc = not definite
      if inc:
        self.maybe += 1
      self.loop_exit_seen = False
      exit_seen = False
      try:
        bind(cls, e2)
        try:
          self.block(st.body, e2)
        except Cnt:
          pass
        except (Brk, MaybeExit):
          exit_seen = True
        except Ret as r:
          self.maybe_returns[-1].append(r.v)
          exit_seen = True
      finally:
        self.assigned.pop()
        if inc:
          self.maybe -= 1
      if exit_seen or self.loop_exit_seen:
        definite = False   # later iterations are only possible
    self.loop_exit_seen = False
    for a in havoc | tnames:
      env[a] = UNK
    self.assigned[-1] |= havoc


class MaybeExit(Exception):
  def __init__(self, exits):
    self.exits = exits
