"""Analysis modulo alpha-renaming of local variables.

A top-level function or method whose syntax tree equals the pinned tree's up to a consistent renaming of its local variables (same shape, same
binding structure, every other token identical) is the same program; its locals are given the pinned names back before any rule looks at it, so
that rules which address a variable by the name it has on the pinned tree are not fooled by `table_size -> ts`.  The pinned shapes and names live
in alpha_pinned.json (regenerate with tools/gen_alpha.py after every commit to /repo).  A unit whose shape differs - any real edit - is left as it is:
normalisation never decides anything, it only removes one source of false alarms."""
from __future__ import annotations
import ast, builtins, hashlib, json, os

PINNED = os.path.join(os.path.dirname(os.path.abspath(__file__)), "alpha_pinned.json")
_BUILTINS = set(dir(builtins))


def module_level_names(tree):
  out = set()
  for n in tree.body:
    if isinstance(n, (ast.Assign, ast.AnnAssign, ast.AugAssign)):
      for t in ast.walk(n):
        if isinstance(t, ast.Name) and isinstance(t.ctx, ast.Store):
          out.add(t.id)
    elif isinstance(n, (ast.FunctionDef, ast.AsyncFunctionDef, ast.ClassDef)):
      out.add(n.name)
    elif isinstance(n, (ast.Import, ast.ImportFrom)):
      for al in n.names:
        out.add((al.asname or al.name).split(".")[0])
  return out


def units(tree):
  for n in tree.body:
    if isinstance(n, ast.FunctionDef):
      yield n.name, n
    elif isinstance(n, ast.ClassDef):
      for m in n.body:
        if isinstance(m, ast.FunctionDef):
          yield n.name + "." + m.name, m


def _ordered_nodes(fn):
  """Name nodes of the unit in source order."""
  ns = [n for n in ast.walk(fn) if isinstance(n, ast.Name)]
  ns.sort(key=lambda n: (n.lineno, n.col_offset))
  return ns


def local_names(fn, modnames):
  """Local variables of the unit (nested functions and comprehensions included) in order of first occurrence."""
  params, stores, declared = set(), set(), set()
  for n in ast.walk(fn):
    if isinstance(n, (ast.FunctionDef, ast.AsyncFunctionDef, ast.Lambda)):
      a = n.args
      for x in a.posonlyargs + a.args + a.kwonlyargs + ([a.vararg] if a.vararg else []) + ([a.kwarg] if a.kwarg else []):
        params.add(x.arg)
      if n is not fn and not isinstance(n, ast.Lambda):
        declared.add(n.name)
    elif isinstance(n, (ast.Global, ast.Nonlocal)):
      declared.update(n.names)
    elif isinstance(n, ast.Name) and isinstance(n.ctx, (ast.Store, ast.Del)):
      stores.add(n.id)
    elif isinstance(n, ast.ExceptHandler) and n.name:
      declared.add(n.name)
    elif isinstance(n, (ast.Import, ast.ImportFrom)):
      for al in n.names:
        declared.add((al.asname or al.name).split(".")[0])
  loc = stores - params - declared - modnames - _BUILTINS
  order = []
  for n in _ordered_nodes(fn):
    if n.id in loc and n.id not in order:
      order.append(n.id)
  return order


def shape(fn, order):
  """Digest of the unit with every local replaced by its index: equal digests <=> equal up to renaming of locals (docstrings ignored)."""
  idx = {nm: "$%d" % i for i, nm in enumerate(order)}
  saved = []
  for n in ast.walk(fn):
    if isinstance(n, ast.Name) and n.id in idx:
      saved.append((n, n.id))
      n.id = idx[n.id]
  try:
    body = fn.body
    doc = body[0] if body and isinstance(body[0], ast.Expr) and isinstance(body[0].value, ast.Constant) and isinstance(body[0].value.value, str) else None
    if doc is not None:
      fn.body = body[1:] or [ast.Pass()]
    d = ast.dump(fn, annotate_fields=False, include_attributes=False)
    fn.body = body
  finally:
    for n, old in saved:
      n.id = old
  return hashlib.sha256(d.encode()).hexdigest()[:24]


def contexts(fn, order):
  """{local: sorted list of digests of the statement headers it occurs in}, with the local itself written '@' and every other local '$':
  what a variable is bound from and how it is used, independent of every local name."""
  loc = set(order)
  parent_stmt = {}

  def header_nodes(st):
    """the expressions that belong to the statement itself (not to nested statements)."""
    out = []
    for f_, v in ast.iter_fields(st):
      vs = v if isinstance(v, list) else [v]
      for x in vs:
        if isinstance(x, ast.AST) and not isinstance(x, (ast.stmt, ast.ExceptHandler, ast.match_case)):
          out.append(x)
    return out

  res = {nm: [] for nm in order}
  for st in ast.walk(fn):
    if not isinstance(st, ast.stmt) or st is fn:
      continue
    hdr = header_nodes(st)
    names = [n for h in hdr for n in ast.walk(h) if isinstance(n, ast.Name) and n.id in loc]
    if not names:
      continue
    here = sorted({n.id for n in names})
    saved = [(n, n.id) for n in names]
    for me in here:
      for n, old in saved:
        n.id = "@" if old == me else "$"
      d = type(st).__name__ + "|" + "|".join(ast.dump(h, annotate_fields=False) for h in hdr)
      res[me].append(hashlib.sha256(d.encode()).hexdigest()[:10])
    for n, old in saved:
      n.id = old
  return {k: sorted(v) for k, v in res.items()}


def match_by_context(cur, pin):
  """Best-effort one-to-one map current local -> pinned local from their context multisets (exact first, then mutual best Jaccard >= 0.5)."""
  from collections import Counter
  cur = {k: v for k, v in cur.items() if k not in pin}
  pin = {k: v for k, v in pin.items() if k not in cur}
  mp = {}
  # exact
  byc = {}
  for k, v in cur.items():
    byc.setdefault(tuple(v), []).append(k)
  byp = {}
  for k, v in pin.items():
    byp.setdefault(tuple(v), []).append(k)
  for sig, ks in byc.items():
    if sig and len(ks) == 1 and len(byp.get(sig, [])) == 1:
      mp[ks[0]] = byp[sig][0]
  restc = {k: Counter(v) for k, v in cur.items() if k not in mp}
  restp = {k: Counter(v) for k, v in pin.items() if k not in mp.values()}

  def jac(a, b):
    inter = sum((a & b).values())
    union = sum((a | b).values())
    return inter / union if union else 0.0
  score = {(c, p_): jac(ca, pa) for c, ca in restc.items() for p_, pa in restp.items()}
  for c in restc:
    cands = sorted(((score[(c, p_)], p_) for p_ in restp), reverse=True)
    if not cands or cands[0][0] < 0.5 or (len(cands) > 1 and cands[1][0] == cands[0][0]):
      continue
    p_ = cands[0][1]
    back = sorted(((score[(c2, p_)], c2) for c2 in restc), reverse=True)
    if back[0][1] == c and (len(back) == 1 or back[1][0] < back[0][0]):
      mp[c] = p_
  # weaker evidence, still mutual best and unambiguous: a third, then a fifth of the contexts shared
  for thr in (0.34, 0.2):
    leftc = [c for c in restc if c not in mp]
    leftp = [p_ for p_ in restp if p_ not in mp.values()]
    for c in leftc:
      cands = sorted(((score[(c, p_)], p_) for p_ in leftp if p_ not in mp.values()), reverse=True)
      if not cands or cands[0][0] < thr or (len(cands) > 1 and cands[1][0] == cands[0][0]):
        continue
      p_ = cands[0][1]
      back = sorted(((score[(c2, p_)], c2) for c2 in leftc if c2 not in mp), reverse=True)
      if back and back[0][1] == c and (len(back) == 1 or back[1][0] < back[0][0]):
        mp[c] = p_
  return mp


_pinned = None


def pinned():
  global _pinned
  if _pinned is None:
    try:
      _pinned = json.load(open(PINNED))
    except (OSError, ValueError):
      _pinned = {}
  return _pinned


def normalise(tree, short):
  """Renames locals of alpha-equivalent units to their pinned names, in place.  Returns the list of (unit, {actual: pinned}) applied."""
  if os.environ.get("PCSTATIC_NO_ALPHA") == "1":
    return []
  tab = pinned().get(short)
  if not tab:
    return []
  modnames = module_level_names(tree)
  applied = []
  for qual, fn in units(tree):
    ent = tab.get(qual)
    if not ent:
      continue
    order = local_names(fn, modnames)
    if order == ent["names"]:
      continue
    if len(order) == len(ent["names"]) and shape(fn, order) == ent["shape"]:
      mp = dict(zip(order, ent["names"]))                     # alpha-equivalent to the pinned unit
    else:
      # an edited unit: give back the pinned name to every local whose bindings and uses still identify it (any injective renaming is sound)
      mp = match_by_context(contexts(fn, order), ent.get("ctx", {}))
      mp = {a: b for a, b in mp.items() if a != b}
      if not mp:
        continue
    # the pinned names must not collide with anything else the unit mentions
    others = {n.id for n in ast.walk(fn) if isinstance(n, ast.Name)} - set(mp)
    if set(mp.values()) & others or len(set(mp.values())) != len(mp):
      continue
    for n in ast.walk(fn):
      if isinstance(n, ast.Name) and n.id in mp:
        n.id = mp[n.id]
    applied.append((qual, {a: b for a, b in mp.items() if a != b}))
  return applied


def generate(repo_root):
  import glob
  out = {}
  base = os.path.join(repo_root, "paranoid_crypto")
  for f in sorted(glob.glob(base + "/**/*.py", recursive=True)):
    if f.endswith("_test.py"):
      continue
    rel = os.path.relpath(f, repo_root)[:-3].replace(os.sep, ".")
    if rel.endswith(".__init__"):
      rel = rel[:-9]
    short = rel.split(".", 1)[1] if rel.startswith("paranoid_crypto.") else rel
    short = short[4:] if short.startswith("lib.") else short
    try:
      tree = ast.parse(open(f, encoding="utf-8").read())
    except SyntaxError:
      continue
    modnames = module_level_names(tree)
    ent = {}
    for qual, fn in units(tree):
      order = local_names(fn, modnames)
      if order:
        ent[qual] = {"names": order, "shape": shape(fn, order), "ctx": contexts(fn, order)}
    if ent:
      out[short] = ent
  return out
