"""Definite assignment of local variables (a 'must' dataflow over Python's structured control flow).

A local variable (a name bound somewhere in the function and not declared global / nonlocal) that is read at a point not dominated by a binding on
every path raises UnboundLocalError there.  The analysis is path-insensitive: it reports a read as soon as ONE syntactic path reaches it without a
binding.  Correlated conditions (bound under `if c:` and read under a later `if c:`) are recognised only in the exact form "same test expression,
no rebinding of its names in between".
"""
from __future__ import annotations
import ast


def _targets(t, out):
  if isinstance(t, ast.Name):
    out.add(t.id)
  elif isinstance(t, (ast.Tuple, ast.List)):
    for e in t.elts:
      _targets(e, out)
  elif isinstance(t, ast.Starred):
    _targets(t.value, out)


def local_names(fn):
  """names bound in fn's own scope (not in nested functions / classes / comprehensions)"""
  bound, declared = set(), set()
  a = fn.args
  for x in a.posonlyargs + a.args + a.kwonlyargs + ([a.vararg] if a.vararg else []) + ([a.kwarg] if a.kwarg else []):
    bound.add(x.arg)

  def visit(n):
    for ch in ast.iter_child_nodes(n):
      if isinstance(ch, (ast.FunctionDef, ast.AsyncFunctionDef, ast.ClassDef)):
        bound.add(ch.name)
        continue
      if isinstance(ch, ast.Lambda):
        continue
      if isinstance(ch, (ast.ListComp, ast.SetComp, ast.DictComp, ast.GeneratorExp)):
        # only walrus targets leak; the first iterable is evaluated outside but binds nothing
        for sub in ast.walk(ch):
          if isinstance(sub, ast.NamedExpr):
            _targets(sub.target, bound)
        continue
      if isinstance(ch, (ast.Global, ast.Nonlocal)):
        declared.update(ch.names)
      elif isinstance(ch, ast.Name) and isinstance(ch.ctx, (ast.Store, ast.Del)):
        bound.add(ch.id)
      elif isinstance(ch, ast.ExceptHandler) and ch.name:
        bound.add(ch.name)
      elif isinstance(ch, (ast.Import, ast.ImportFrom)):
        for al in ch.names:
          bound.add((al.asname or al.name).split(".")[0])
      elif isinstance(ch, ast.MatchAs) and ch.name:
        bound.add(ch.name)
      visit(ch)
  visit(fn)
  params = {x.arg for x in a.posonlyargs + a.args + a.kwonlyargs + ([a.vararg] if a.vararg else []) + ([a.kwarg] if a.kwarg else [])}
  return bound - declared, params


class Analysis:
  def __init__(self, fn):
    self.fn = fn
    self.locals, self.params = local_names(fn)
    self.reports = []      # (name, lineno, reason)
    self.guards = []       # stack of (test text, names of the test, set of names bound under it) currently known true
    self.exits = []        # sets of bound names at every normal exit (return / end of body)
    self.first_iter = {}   # id(If node) -> names its else branch may rely on (first-iteration initialisation idiom)

  # --- expressions: report reads, return names bound by walrus
  def reads(self, e, have):
    if e is None:
      return set()
    bound = set()
    for n in self._walk_expr(e):
      if isinstance(n, ast.Name) and isinstance(n.ctx, ast.Load) and n.id in self.locals and n.id not in have and n.id not in bound:
        self.reports.append((n.id, n.lineno, "read before any binding on some path"))
      elif isinstance(n, ast.NamedExpr):
        _targets(n.target, bound)
    return bound

  def _walk_expr(self, e):
    """pre-order walk that does not enter nested function bodies and treats comprehension variables as bound inside the comprehension"""
    stack = [(e, frozenset())]
    while stack:
      n, shadow = stack.pop()
      if isinstance(n, ast.Lambda):
        continue
      if isinstance(n, (ast.ListComp, ast.SetComp, ast.DictComp, ast.GeneratorExp)):
        sh = set(shadow)
        first = True
        for g in n.generators:
          # the iterable of the first generator is evaluated in the enclosing scope
          stack.append((g.iter, frozenset(shadow if first else sh)))
          t = set()
          _targets(g.target, t)
          sh |= t
          for c in g.ifs:
            stack.append((c, frozenset(sh)))
          first = False
        for part in ([n.key, n.value] if isinstance(n, ast.DictComp) else [n.elt]):
          stack.append((part, frozenset(sh)))
        continue
      if isinstance(n, ast.Name) and n.id in shadow:
        continue
      yield n
      for ch in reversed(list(ast.iter_child_nodes(n))):
        if isinstance(ch, (ast.expr, ast.comprehension, ast.keyword, ast.arguments, ast.arg, ast.FormattedValue)) or isinstance(ch, ast.AST):
          stack.append((ch, shadow))

  # --- statements: (set after fall-through or None, list of sets at break, list at continue)
  def block(self, stmts, have):
    brk, cont = [], []
    cur = set(have)
    for s in stmts:
      if cur is None:
        break
      cur, b, c = self.stmt(s, cur)
      brk += b
      cont += c
    return cur, brk, cont

  def stmt(self, s, have):
    if not isinstance(s, ast.If) and self.guards:
      stored = {n.id for n in ast.walk(s) if isinstance(n, ast.Name) and isinstance(n.ctx, (ast.Store, ast.Del))}
      if stored:
        self.guards = [g for g in self.guards if not (g[1] & stored)]
    return self._stmt(s, have)

  def _stmt(self, s, have):
    if isinstance(s, (ast.FunctionDef, ast.AsyncFunctionDef, ast.ClassDef)):
      for d in getattr(s, "decorator_list", []):
        self.reads(d, have)
      return have | {s.name}, [], []
    if isinstance(s, ast.Assign):
      w = self.reads(s.value, have)
      out = set(have) | w
      for t in s.targets:
        self._store_reads(t, out)
        _targets(t, out)
      return out, [], []
    if isinstance(s, ast.AnnAssign):
      out = set(have)
      if s.value is not None:
        out |= self.reads(s.value, have)
        self._store_reads(s.target, out)
        _targets(s.target, out)
      return out, [], []
    if isinstance(s, ast.AugAssign):
      w = self.reads(s.value, have)
      if isinstance(s.target, ast.Name):
        if s.target.id in self.locals and s.target.id not in have:
          self.reports.append((s.target.id, s.lineno, "augmented assignment before any binding on some path"))
      else:
        self._store_reads(s.target, have)
      out = set(have) | w
      _targets(s.target, out)
      return out, [], []
    if isinstance(s, ast.Expr):
      return set(have) | self.reads(s.value, have), [], []
    if isinstance(s, ast.Return):
      self.reads(s.value, have)
      self.exits.append(set(have))
      return None, [], []
    if isinstance(s, ast.Raise):
      self.reads(s.exc, have)
      self.reads(s.cause, have)
      return None, [], []
    if isinstance(s, ast.Break):
      return None, [set(have)], []
    if isinstance(s, ast.Continue):
      return None, [], [set(have)]
    if isinstance(s, (ast.Pass, ast.Global, ast.Nonlocal)):
      return set(have), [], []
    if isinstance(s, (ast.Import, ast.ImportFrom)):
      out = set(have)
      for al in s.names:
        out.add((al.asname or al.name).split(".")[0])
      return out, [], []
    if isinstance(s, ast.Delete):
      out = set(have)
      for t in s.targets:
        if isinstance(t, ast.Name):
          if t.id in self.locals and t.id not in have:
            self.reports.append((t.id, s.lineno, "del before any binding on some path"))
          out.discard(t.id)
        else:
          self._store_reads(t, have)
      return out, [], []
    if isinstance(s, ast.Assert):
      self.reads(s.test, have)
      self.reads(s.msg, have)
      return set(have), [], []
    if isinstance(s, ast.If):
      w = self.reads(s.test, have)
      base = set(have) | w
      text = ast.dump(s.test)
      tnames = {n.id for n in ast.walk(s.test) if isinstance(n, ast.Name)}
      # correlated guard: the same test was true earlier and nothing it mentions has been rebound since
      extra = set()
      for g_text, g_names, g_bound in self.guards:
        if g_text == text:
          extra |= g_bound
      fi = self.first_iter.get(id(s))
      a, b1, c1 = self.block(s.body, base | extra | (fi[0] if fi and not fi[1] else set()))
      e, b2, c2 = self.block(s.orelse, base | (fi[0] if fi and fi[1] else set()))
      if a is not None and not s.orelse:
        gained = a - base
        if gained:
          self.guards.append((text, tnames, gained))
      if a is None and e is None:
        out = None
      elif a is None:
        out = e
      elif e is None:
        out = a
      else:
        out = a & e
      return out, b1 + b2, c1 + c2
    if isinstance(s, (ast.For, ast.AsyncFor)):
      w = self.reads(s.iter, have)
      base = set(have) | w
      inner = set(base)
      self._store_reads(s.target, inner)
      _targets(s.target, inner)
      self._first_iteration_idiom(s)
      body_out, brk, cont = self.block(s.body, inner)
      # zero iterations are possible: after the loop only what was bound before it (plus what every break path has) - unless the iterable is a
      # non-empty literal, in which case the loop ends normally only after a complete pass
      nonempty = isinstance(s.iter, (ast.Tuple, ast.List)) and len(s.iter.elts) >= 1 and not any(isinstance(x, ast.Starred) for x in s.iter.elts)
      if nonempty:
        ends = ([body_out] if body_out is not None else []) + cont
        normal = set.intersection(*ends) if ends else None
      else:
        normal = set(base)
      if s.orelse:
        if normal is None:
          outs, b2, c2 = list(brk), [], []
        else:
          e, b2, c2 = self.block(s.orelse, normal)
          outs = ([e] if e is not None else []) + brk
        after = set.intersection(*outs) if outs else None
        return after, b2, c2
      outs = ([normal] if normal is not None else []) + brk
      return (set.intersection(*outs) if outs else None), [], []
    if isinstance(s, ast.While):
      w = self.reads(s.test, have)
      base = set(have) | w
      body_out, brk, cont = self.block(s.body, base)
      const_true = isinstance(s.test, ast.Constant) and bool(s.test.value)
      if const_true:
        after = set.intersection(*brk) if brk else None
      else:
        after = set(base)
      if s.orelse and after is not None:
        e, b2, c2 = self.block(s.orelse, base)
        outs = ([e] if e is not None else []) + brk
        after = set.intersection(*outs) if outs else None
        return after, b2, c2
      return after, [], []
    if isinstance(s, (ast.With, ast.AsyncWith)):
      cur = set(have)
      for it in s.items:
        cur |= self.reads(it.context_expr, cur)
        if it.optional_vars is not None:
          self._store_reads(it.optional_vars, cur)
          _targets(it.optional_vars, cur)
      return self.block(s.body, cur)
    if isinstance(s, ast.Try) or s.__class__.__name__ == "TryStar":
      body_out, b0, c0 = self.block(s.body, have)
      outs, brk, cont = [], list(b0), list(c0)
      if body_out is not None:
        if s.orelse:
          e, b1, c1 = self.block(s.orelse, body_out)
          brk += b1
          cont += c1
          if e is not None:
            outs.append(e)
        else:
          outs.append(body_out)
      for h in s.handlers:
        hv = set(have)
        if h.type is not None:
          self.reads(h.type, hv)
        if h.name:
          hv.add(h.name)
        ho, b1, c1 = self.block(h.body, hv)
        brk += b1
        cont += c1
        if ho is not None:
          if h.name:
            ho = set(ho)
            ho.discard(h.name)
          outs.append(ho)
      after = set.intersection(*outs) if outs else None
      if s.finalbody:
        f_in = set(have)
        fo, b1, c1 = self.block(s.finalbody, f_in)
        brk += b1
        cont += c1
        if fo is None:
          after = None
        elif after is not None:
          after = after | (fo - f_in)
      return after, brk, cont
    if s.__class__.__name__ == "Match":
      self.reads(s.subject, have)
      outs, brk, cont = [], [], []
      for case in s.cases:
        cv = set(have)
        for n in ast.walk(case.pattern):
          if isinstance(n, (ast.MatchAs, ast.MatchStar)) and n.name:
            cv.add(n.name)
          elif isinstance(n, ast.MatchMapping) and n.rest:
            cv.add(n.rest)
        if case.guard is not None:
          self.reads(case.guard, cv)
        o, b1, c1 = self.block(case.body, cv)
        brk += b1
        cont += c1
        if o is not None:
          outs.append(o)
      outs.append(set(have))
      return set.intersection(*outs), brk, cont
    # anything else: read its expressions
    for ch in ast.iter_child_nodes(s):
      if isinstance(ch, ast.expr):
        self.reads(ch, have)
    return set(have), [], []

  def _first_iteration_idiom(self, loop):
    """for v in range(start, ...): ...; if v == start: x = init; else: <uses x>.  The else branch runs only in later passes, after the first pass
    bound x - provided the `if` is reached in every pass (nothing before it leaves the pass) and neither v nor the names of start are rebound."""
    if not (isinstance(loop.target, ast.Name) and isinstance(loop.iter, ast.Call) and isinstance(loop.iter.func, ast.Name) and loop.iter.func.id == "range"
            and len(loop.iter.args) >= 2 and not loop.iter.keywords):
      return
    v, start = loop.target.id, loop.iter.args[0]
    start_names = {n.id for n in ast.walk(start) if isinstance(n, ast.Name)}
    stored = {n.id for st in loop.body for n in ast.walk(st) if isinstance(n, ast.Name) and isinstance(n.ctx, (ast.Store, ast.Del))}
    if v in stored or (start_names & stored):
      return
    for i, st in enumerate(loop.body):
      if any(isinstance(n, (ast.Continue, ast.Break, ast.Return, ast.Raise)) for p in loop.body[:i] for n in ast.walk(p)):
        return
      if isinstance(st, ast.If) and st.orelse and isinstance(st.test, ast.Compare) and len(st.test.ops) == 1 and isinstance(st.test.ops[0], (ast.Eq, ast.NotEq)):
        l, r = st.test.left, st.test.comparators[0]
        if (isinstance(l, ast.Name) and l.id == v and ast.dump(r) == ast.dump(start)) or (isinstance(r, ast.Name) and r.id == v and ast.dump(l) == ast.dump(start)):
          bound_then = set()
          ok = True
          first_branch = st.body if isinstance(st.test.ops[0], ast.Eq) else st.orelse
          for b in first_branch:
            if isinstance(b, ast.Assign):
              for t in b.targets:
                _targets(t, bound_then)
            elif any(isinstance(n, (ast.Continue, ast.Break, ast.Return, ast.Raise, ast.Delete)) for n in ast.walk(b)):
              ok = False
          deleted = {n.id for p in loop.body for n in ast.walk(p) if isinstance(n, ast.Name) and isinstance(n.ctx, ast.Del)}
          if ok and bound_then and not (bound_then & deleted):
            self.first_iter[id(st)] = (bound_then, isinstance(st.test.ops[0], ast.Eq))
            return

  def _store_reads(self, t, have):
    """sub-expressions read while storing into t (x[i] = v reads x and i)"""
    if isinstance(t, (ast.Subscript, ast.Attribute)):
      self.reads(t.value, have)
      if isinstance(t, ast.Subscript):
        self.reads(t.slice, have)
    elif isinstance(t, (ast.Tuple, ast.List)):
      for e in t.elts:
        self._store_reads(e, have)
    elif isinstance(t, ast.Starred):
      self._store_reads(t.value, have)

  def run(self):
    have = set(self.params)
    for d in self.fn.args.defaults + [x for x in self.fn.args.kw_defaults if x is not None]:
      pass
    end, _, _ = self.block(self.fn.body, have)
    if end is not None:
      self.exits.append(set(end))
    # a rebinding of a guard's names between the two ifs is not tracked: drop reports only when the guard mechanism accepted them (done inline)
    out, seen = [], set()
    for r in self.reports:
      if (r[0], r[1]) not in seen:
        seen.add((r[0], r[1]))
        out.append(r)
    return out


def analyse(fn):
  """[(name, lineno, reason)] for one FunctionDef; nested functions are analysed separately by the caller."""
  return Analysis(fn).run()


def functions(tree):
  """(qualname, node) of every function in a module, nested ones included"""
  out = []

  def visit(n, prefix):
    for ch in ast.iter_child_nodes(n):
      if isinstance(ch, (ast.FunctionDef, ast.AsyncFunctionDef)):
        out.append((prefix + ch.name, ch))
        visit(ch, prefix + ch.name + ".")
      elif isinstance(ch, ast.ClassDef):
        visit(ch, prefix + ch.name + ".")
      else:
        visit(ch, prefix)
  visit(tree, "")
  return out


class _SelfAttrs(ast.NodeTransformer):
  def __init__(self, selfname):
    self.selfname = selfname

  def visit_Attribute(self, node):
    self.generic_visit(node)
    if isinstance(node.value, ast.Name) and node.value.id == self.selfname:
      return ast.copy_location(ast.Name(id="@" + node.attr, ctx=node.ctx), node)
    return node


def attrs_bound_by(fn):
  """attributes `self.x` that are bound on every path to a normal exit of the method fn (a constructor, usually)"""
  import copy
  if not fn.args.args:
    return set()
  selfname = fn.args.args[0].arg
  fn2 = _SelfAttrs(selfname).visit(copy.deepcopy(fn))
  ast.fix_missing_locations(fn2)
  an = Analysis(fn2)
  an.run()
  if not an.exits:
    return set()
  common = set.intersection(*an.exits)
  return {x[1:] for x in common if x.startswith("@")}
