"""Predicate regions (DESIGN 2.4): decides equivalence of an extracted predicate (DNF of path
conditions) with a specification predicate, for boolean combinations of comparisons between integer
terms.  Complete for the fragment; anything else -> None (incomplete)."""
from __future__ import annotations
import itertools
from fractions import Fraction
from .poly import Poly, Atom
from .sym import Const, Seq, as_poly, cond_atoms

CMP = {"Eq": lambda a, b: a == b, "NotEq": lambda a, b: a != b, "Lt": lambda a, b: a < b,
       "LtE": lambda a, b: a <= b, "Gt": lambda a, b: a > b, "GtE": lambda a, b: a >= b}


class Unknown(Exception):
  pass


class Valuation:
  def __init__(self, assign):
    self.assign = assign   # Atom -> int

  def __getitem__(self, p):
    return self.value(p)

  def value(self, p):
    if isinstance(p, Const):
      if isinstance(p.v, (int, bool)):
        return int(p.v)
      raise Unknown("non-integer constant %r" % (p.v,))
    p = as_poly(p)
    tot = Fraction(0)
    for k, c in p.t.items():
      term = Fraction(c)
      for a, e in k:
        if a not in self.assign:
          if a.kind in ("min", "max") and a.args:
            vals = [self.value(x) for x in a.args]
            term *= Fraction(min(vals) if a.kind == "min" else max(vals)) ** e
            continue
          if a.kind == "abs" and len(a.args) == 1:
            term *= abs(self.value(a.args[0])) ** e
            continue
          if a.kind in ("fdiv", "mod") and len(a.args) == 2:
            x_, y_ = self.value(a.args[0]), self.value(a.args[1])
            if x_.denominator != 1 or y_.denominator != 1 or y_ == 0:
              raise Unknown("floor division outside the integers")
            term *= Fraction(int(x_) // int(y_) if a.kind == "fdiv" else int(x_) % int(y_)) ** e
            continue
          if a.kind == "bitlen" and len(a.args) == 1:
            inner = self.value(a.args[0])
            if inner.denominator != 1:
              raise Unknown("bit_length of a non-integer")
            term *= Fraction(abs(int(inner)).bit_length()) ** e
            continue
          raise Unknown("term %r is not a comparison operand of the fragment" % (a,))
        term *= Fraction(self.assign[a]) ** e
      tot += term
    return tot


def eval_cond(c, val):
  k = c[0]
  if k == "const":
    return bool(c[1])
  if k == "not":
    return not eval_cond(c[1], val)
  if k == "and":
    return all(eval_cond(x, val) for x in c[1])
  if k == "or":
    return any(eval_cond(x, val) for x in c[1])
  if k == "cmp":
    op = c[1]
    if op not in CMP:
      raise Unknown("operator %s" % op)
    return CMP[op](val.value(c[2]), val.value(c[3]))
  if k == "truthy" and isinstance(c[1], Poly) and arithmetic(c[1]):
    return val.value(c[1]) != 0                    # `if e:` on an integer expression
  raise Unknown("condition %s outside the comparison fragment" % k)


def arithmetic(p):
  """An integer-valued expression (sum / difference / product of numeric atoms), as opposed to an object tested for emptiness."""
  a = p.as_atom()
  if a is None:
    return True
  return a.kind in ("mod", "fdiv", "shr", "shl", "band", "bor", "bxor", "bitlen", "len", "isqrt", "gcd", "pow", "abs", "min", "max")


def leaf_atoms(p):
  """Top-level atoms of p with min / max / abs opened up (their operands are ordinary comparison operands)."""
  out = set()
  for a in as_poly(p).atoms():
    if a.kind in ("min", "max", "abs", "bitlen", "fdiv", "mod") and all(isinstance(x, (Poly, Const)) for x in a.args) and (a.kind != "bitlen" or open_bitlen(a)) \
       and (a.kind not in ("fdiv", "mod") or as_poly(a.args[1]).as_int() not in (None, 0)):
      for x in a.args:
        if isinstance(x, Const):
          continue
        out |= leaf_atoms(x)
    else:
      out.add(a)
  return out


def open_bitlen(a):
  """bit_length of a plain operand that is itself compared elsewhere is evaluated from that operand; bit_length of an opaque term stays an atom."""
  x = a.args[0]
  xa = as_poly(x).as_atom() if isinstance(x, Poly) else None
  return xa is not None and xa.kind in ("param", "idx", "sym")


def leaf_consts(p):
  out = set()
  for a in as_poly(p).atoms():
    if a.kind in ("min", "max", "abs", "fdiv", "mod"):
      for x in a.args:
        xp = as_poly(x) if not isinstance(x, Const) else Poly.const(int(x.v))
        cv = xp.constval()
        if cv.denominator == 1:
          out.add(int(cv))
          out.add(-int(cv))
        out |= leaf_consts(xp)
  return out


def collect(conds):
  """atoms and integer constants occurring in comparison operands."""
  atoms, consts = set(), set()
  for c in conds:
    for a in cond_atoms(c):
      if a[0] == "truthy" and isinstance(a[1], Poly) and arithmetic(a[1]):
        a = ("cmp", "NotEq", a[1], Poly.const(0))
      if a[0] != "cmp":
        continue
      for side in (a[2], a[3]):
        if isinstance(side, Const):
          if isinstance(side.v, (int, bool)):
            consts.add(int(side.v))
          continue
        p = as_poly(side)
        atoms |= leaf_atoms(p)
        consts |= leaf_consts(p)
        i = p.as_int()
        if i is not None:
          consts.add(i)
        else:
          cv = p.constval()
          if cv.denominator == 1:
            consts.add(int(cv))
            consts.add(-int(cv))
  return atoms, consts


# When set, only "the code acts where the specification forbids it" counts as a difference (code => specification): used by properties that
# care about over-flagging alone (C07: healthy artifacts are never accused) when they share another property's predicate rows.
ONE_SIDED = False


def map_cond(c, fn):
  """condition tree with fn applied to every Poly operand"""
  k = c[0]
  if k == "not":
    return ("not", map_cond(c[1], fn))
  if k in ("and", "or"):
    return (k, [map_cond(x, fn) for x in c[1]])
  if k == "cmp":
    return ("cmp", c[1], fn(c[2]) if isinstance(c[2], Poly) else c[2], fn(c[3]) if isinstance(c[3], Poly) else c[3])
  if k == "truthy" and isinstance(c[1], Poly):
    return ("truthy", fn(c[1]))
  return c


def _bytelen_lemma(p):
  from . import sym as _sym
  out = p
  for a in p.all_atoms():
    if a.kind == "len" and len(a.args) == 1 and isinstance(a.args[0], Poly):
      m = a.args[0].as_atom()
      if m is not None and m.kind in ("mcall", "pm") and len(m.args) == 3 and repr(m.args[1]) == "lit('lstrip')" and isinstance(m.args[2], Poly) \
         and m.args[2].as_atom() is not None and m.args[2].as_atom().kind == "lit" and m.args[2].as_atom().args[0] == repr(b"\x00"):
        field = m.args[0]
        val = _sym.mk("bitlen", _sym.mk("call", Poly.atom(Atom("lit", "util:Bytes2Int")), field))
        out = out.deep_subst(a, _sym.mk("fdiv", val + 7, Poly.const(8)))
  return _sym.rebuild(out) if out is not p else p


def _lemma_applied(pos_paths):
  return False


def equivalent_dnf(pos_paths, spec, main=None, extra_atoms=(), spec_consts=()):
  """pos_paths: list of conjunctions [(cond, polarity), ...] under which the code takes the action.
  spec: callable(Valuation) -> bool.  main: the Poly (single atom) whose regions are enumerated.
  -> (True|False|None, detail)"""
  conds = [c for path in pos_paths for c, _ in path]
  atoms, consts = collect(conds)
  for a in extra_atoms:
    atoms.add(a)
  consts |= set(spec_consts)
  main_atom = as_poly(main).as_atom() if main is not None else None
  if main is not None and main_atom is None:
    return None, "main term is not atomic"
  mentioned = set()
  for c in conds:
    for a in cond_atoms(c):
      for side in a[1:]:
        if isinstance(side, Poly):
          mentioned |= side.all_atoms()
  if main_atom is not None and conds and main_atom not in mentioned and main_atom.kind == "bitlen" and not _lemma_applied(pos_paths):
    # byte-length lemma: len(b.lstrip(b"\0")) = ceil(bit_length(int(b)) / 8) for a big-endian encoding b
    rew = [[(map_cond(c, _bytelen_lemma), pol) for c, pol in path] for path in pos_paths]
    if rew != pos_paths:
      return equivalent_dnf(rew, spec, main, extra_atoms, spec_consts)
  if main_atom is not None and conds and main_atom not in mentioned:
    # the code never tests the quantity the criterion is about.  Enumerating regions would treat the two as independent, which they are not.
    inner = [x.as_atom() for x in main_atom.args if isinstance(x, Poly) and x.as_atom() is not None and x.as_atom().kind != "lit"]
    raw = [a for a in atoms if a in inner]
    if raw and main_atom.kind in ("call", "extcall"):
      return False, ("the code compares the raw value %s instead of %s: two encodings of the same integer (leading zero bytes) compare unequal, "
                     "so artifacts that do not meet the criterion are flagged" % (repr(raw[0])[:70], repr(main_atom)[:70]))
    dep = [x for x in inner if x in mentioned]
    if dep:
      return None, "the code's condition never mentions %s but tests %s, on which it depends: equivalence with the criterion cannot be decided by region enumeration" % (
          repr(main_atom)[:80], repr(dep[0])[:60])
    # otherwise the code tests quantities independent of the criterion's: the enumeration below is valid (and will find the disagreement)
  if main_atom is not None:
    atoms.add(main_atom)
  others = sorted((a for a in atoms if a != main_atom), key=repr)
  if len(others) > 4:
    return None, "too many symbolic comparison operands (%d)" % len(others)
  # symbolic constants get widely spaced values so that they do not collide with literals
  span = max([abs(c) for c in consts] + [1]) * 4 + 1000
  base = {a: span * (i + 2) for i, a in enumerate(others)}
  points = set(consts) | set(base.values()) | {0}
  # offsets appearing together with symbolic constants (e.g. mod - 1)
  cand = set()
  for p in points:
    for c in list(consts) + [0]:
      for d in (-1, 0, 1):
        cand.add(p + c + d)
        cand.add(p - c + d)
  tests = sorted(cand)
  if main_atom is None:
    tests = [0]
  checked = 0
  # the other symbolic operands are tried in every relative order (a condition such as `h >= n` between two of them must not be invisible because one
  # fixed assignment happens to satisfy it)
  import itertools
  orders = list(itertools.permutations(others)) if 1 < len(others) <= 4 else [tuple(others)]
  try:
    for order in orders:
      base_o = {a: span * (i + 2) for i, a in enumerate(order)}
      for t in tests:
        assign = dict(base_o)
        if main_atom is not None:
          assign[main_atom] = t
        val = Valuation(assign)
        code = any(all(eval_cond(c, val) == pol for c, pol in path) for path in pos_paths)
        want = bool(spec(val))
        checked += 1
        if code != want and not (ONE_SIDED and not code):
          return False, "predicates differ at %s = %d%s: code %s, specification %s" % (
              repr(main_atom) if main_atom is not None else "-", t,
              (" with " + " < ".join(repr(a)[:40] for a in order)) if len(order) > 1 else "", "acts" if code else "does not act", "requires it" if want else "forbids it")
  except Unknown as u:
    return None, "outside the decidable fragment: %s" % u
  return True, "equivalent on all %d region representatives (constants %s%s)" % (
      checked, sorted(consts)[:8], ", symbolic: %s" % [repr(a)[:40] for a in others] if others else "")


def weak_orderings(n):
  """All weak orderings of n items as rank tuples (13 for n = 3)."""
  out = set()
  for ranks in itertools.product(range(n), repeat=n):
    used = sorted(set(ranks))
    norm = tuple(used.index(r) for r in ranks)
    out.add(norm)
  return sorted(out)


# ---------------------------------------------------------------------------------------------
# Mixed predicates: several integer terms plus opaque boolean atoms (truthiness, == None, == tuple)
def bool_key(c):
  """Canonical (key, polarity) of a non-numeric atomic condition, or None if c is a numeric comparison."""
  if c[0] == "truthy":
    return ("truthy", repr(as_poly(c[1]) if not isinstance(c[1], (Const, Seq)) else c[1])), True
  if c[0] == "square":
    return ("square", repr(c[1])), True
  if c[0] == "opaque":
    return ("opaque", repr(c[1])), True
  if c[0] == "cmp":
    a, b = c[2], c[3]
    numeric = not isinstance(a, (Seq,)) and not isinstance(b, (Seq,)) and not (isinstance(a, Const) and not isinstance(a.v, (int, bool))) \
        and not (isinstance(b, Const) and not isinstance(b.v, (int, bool)))
    if numeric and c[1] in CMP:
      return None
    ra, rb = sorted([repr(a), repr(b)])
    if c[1] in ("Eq", "Is"):
      return ("same", ra, rb), True
    if c[1] in ("NotEq", "IsNot"):
      return ("same", ra, rb), False
    if c[1] == "In":
      return ("in", repr(a), repr(b)), True
    if c[1] == "NotIn":
      return ("in", repr(a), repr(b)), False
  return ("other", repr(c)), True


class MixedValuation(Valuation):
  def __init__(self, assign, bools):
    super().__init__(assign)
    self.bools = bools

  def truth(self, key):
    return self.bools[key]


def eval_mixed(c, val):
  k = c[0]
  if k == "const":
    return bool(c[1])
  if k == "not":
    return not eval_mixed(c[1], val)
  if k == "and":
    return all(eval_mixed(x, val) for x in c[1])
  if k == "or":
    return any(eval_mixed(x, val) for x in c[1])
  bk = bool_key(c)
  if bk is None:
    return CMP[c[1]](val.value(c[2]), val.value(c[3]))
  key, pol = bk
  if key not in val.bools:
    raise Unknown("boolean atom %r not enumerated" % (key,))
  return val.bools[key] == pol


def equivalent_mixed(pos_paths, spec, mains=(), bool_atoms=(), limit=400000, spec_consts=()):
  """Like equivalent_dnf with several varying integer atoms (mains, Polys) and boolean atoms.
  spec(val) may use val[poly] and val.truth(key) for key in bool_key(...)[0]."""
  import itertools as it
  conds = [c for path in pos_paths for c, _ in path]
  atoms, consts = collect([c for c in conds])
  consts |= set(spec_consts)
  # thresholds hidden behind a division or a product (x // 2 < 112 switches at 224): products of small literal pairs are grid points too
  small = [c for c in consts if 0 < abs(c) <= 4096]
  consts |= {a * b for a in small for b in small if abs(a * b) <= 1 << 20}
  bkeys = set(bool_atoms)
  for c in conds:
    for a in cond_atoms(c):
      bk = bool_key(a)
      if bk is not None:
        bkeys.add(bk[0])
  # atoms that only occur inside boolean atoms are irrelevant for numeric enumeration
  num_atoms = set()
  for c in conds:
    for a in cond_atoms(c):
      if bool_key(a) is None:
        for side in (a[2], a[3]):
          if not isinstance(side, Const):
            num_atoms |= leaf_atoms(side)
  main_atoms = []
  for m in mains:
    ma = as_poly(m).as_atom()
    if ma is None:
      return None, "main term is not atomic"
    main_atoms.append(ma)
    num_atoms.add(ma)
  others = sorted((a for a in num_atoms if a not in main_atoms), key=repr)
  if len(others) > 4:
    return None, "too many symbolic comparison operands"
  span = max([abs(c) for c in consts] + [1]) * 4 + 1000
  base = {a: span * (i + 2) for i, a in enumerate(others)}
  points = set(consts) | set(base.values()) | {0}
  cand = set()
  for p in points:
    for c in list(consts) + [0]:
      for d in (-1, 0, 1):
        cand.add(p + c + d)
        cand.add(p - c + d)
  tests = sorted(cand)
  bkeys = sorted(bkeys, key=repr)
  total = (len(tests) ** len(main_atoms)) * (2 ** len(bkeys))
  if total > limit:
    # thin the numeric grid: keep representatives around the symbolic constants and literals only
    tests = sorted({t for t in tests if any(abs(t - p) <= 1 for p in points)})
    total = (len(tests) ** len(main_atoms)) * (2 ** len(bkeys))
    if total > limit:
      return None, "region product too large (%d)" % total
  checked = 0
  try:
    for nums in it.product(tests, repeat=len(main_atoms)):
      assign = dict(base)
      for a, v in zip(main_atoms, nums):
        assign[a] = v
      for bits in it.product((False, True), repeat=len(bkeys)):
        val = MixedValuation(assign, dict(zip(bkeys, bits)))
        code = any(all(eval_mixed(c, val) == pol for c, pol in path) for path in pos_paths)
        want = bool(spec(val))
        checked += 1
        if code != want and not (ONE_SIDED and not code):
          return False, "predicates differ at %s, %s: code %s, specification %s" % (
              {repr(a)[:40]: v for a, v in zip(main_atoms, nums)}, {str(k)[:60]: b for k, b in zip(bkeys, bits)},
              "acts" if code else "does not act", "requires it" if want else "forbids it")
  except Unknown as u:
    return None, "outside the decidable fragment: %s" % u
  return True, "equivalent on all %d combinations of region representatives and boolean atoms" % checked
