"""Predicate regions (DESIGN 2.4): decides equivalence of an extracted predicate (DNF of path
conditions) with a specification predicate, for boolean combinations of comparisons between integer
terms.  Complete for the fragment; anything else -> None (incomplete)."""
from __future__ import annotations
import itertools
from fractions import Fraction
from .poly import Poly, Atom
from .sym import Const, Seq, as_poly, cond_atoms

CMP = {"Eq": lambda a, b: a == b, "NotEq": lambda a, b: a != b, "Lt": lambda a, b: a < b,
       "LtE": lambda a, b: a <= b, "Gt": lambda a, b: a > b, "GtE": lambda a, b: a >= b}


class Unknown(Exception):
  pass


class Valuation:
  def __init__(self, assign):
    self.assign = assign   # Atom -> int

  def __getitem__(self, p):
    return self.value(p)

  def value(self, p):
    if isinstance(p, Const):
      if isinstance(p.v, (int, bool)):
        return int(p.v)
      raise Unknown("non-integer constant %r" % (p.v,))
    p = as_poly(p)
    tot = Fraction(0)
    for k, c in p.t.items():
      term = Fraction(c)
      for a, e in k:
        if a not in self.assign:
          raise Unknown("term %r is not a comparison operand of the fragment" % (a,))
        term *= Fraction(self.assign[a]) ** e
      tot += term
    return tot


def eval_cond(c, val):
  k = c[0]
  if k == "const":
    return bool(c[1])
  if k == "not":
    return not eval_cond(c[1], val)
  if k == "and":
    return all(eval_cond(x, val) for x in c[1])
  if k == "or":
    return any(eval_cond(x, val) for x in c[1])
  if k == "cmp":
    op = c[1]
    if op not in CMP:
      raise Unknown("operator %s" % op)
    return CMP[op](val.value(c[2]), val.value(c[3]))
  raise Unknown("condition %s outside the comparison fragment" % k)


def collect(conds):
  """atoms and integer constants occurring in comparison operands."""
  atoms, consts = set(), set()
  for c in conds:
    for a in cond_atoms(c):
      if a[0] != "cmp":
        continue
      for side in (a[2], a[3]):
        if isinstance(side, Const):
          if isinstance(side.v, (int, bool)):
            consts.add(int(side.v))
          continue
        p = as_poly(side)
        atoms |= p.atoms()
        i = p.as_int()
        if i is not None:
          consts.add(i)
        else:
          cv = p.constval()
          if cv.denominator == 1:
            consts.add(int(cv))
            consts.add(-int(cv))
  return atoms, consts


def equivalent_dnf(pos_paths, spec, main=None, extra_atoms=(), spec_consts=()):
  """pos_paths: list of conjunctions [(cond, polarity), ...] under which the code takes the action.
  spec: callable(Valuation) -> bool.  main: the Poly (single atom) whose regions are enumerated.
  -> (True|False|None, detail)"""
  conds = [c for path in pos_paths for c, _ in path]
  atoms, consts = collect(conds)
  for a in extra_atoms:
    atoms.add(a)
  consts |= set(spec_consts)
  main_atom = as_poly(main).as_atom() if main is not None else None
  if main is not None and main_atom is None:
    return None, "main term is not atomic"
  if main_atom is not None:
    atoms.add(main_atom)
  others = sorted((a for a in atoms if a != main_atom), key=repr)
  if len(others) > 4:
    return None, "too many symbolic comparison operands (%d)" % len(others)
  # symbolic constants get widely spaced values so that they do not collide with literals
  span = max([abs(c) for c in consts] + [1]) * 4 + 1000
  base = {a: span * (i + 2) for i, a in enumerate(others)}
  points = set(consts) | set(base.values()) | {0}
  # offsets appearing together with symbolic constants (e.g. mod - 1)
  cand = set()
  for p in points:
    for c in list(consts) + [0]:
      for d in (-1, 0, 1):
        cand.add(p + c + d)
        cand.add(p - c + d)
  tests = sorted(cand)
  if main_atom is None:
    tests = [0]
  checked = 0
  try:
    for t in tests:
      assign = dict(base)
      if main_atom is not None:
        assign[main_atom] = t
      val = Valuation(assign)
      code = any(all(eval_cond(c, val) == pol for c, pol in path) for path in pos_paths)
      want = bool(spec(val))
      checked += 1
      if code != want:
        return False, "predicates differ at %s = %d: code %s, specification %s" % (
            repr(main_atom) if main_atom is not None else "-", t, "acts" if code else "does not act", "requires it" if want else "forbids it")
  except Unknown as u:
    return None, "outside the decidable fragment: %s" % u
  return True, "equivalent on all %d region representatives (constants %s%s)" % (
      checked, sorted(consts)[:8], ", symbolic: %s" % [repr(a)[:40] for a in others] if others else "")


def weak_orderings(n):
  """All weak orderings of n items as rank tuples (13 for n = 3)."""
  out = set()
  for ranks in itertools.product(range(n), repeat=n):
    used = sorted(set(ranks))
    norm = tuple(used.index(r) for r in ranks)
    out.add(norm)
  return sorted(out)
