"""Exact evaluation of extracted integer terms on a finite grid of assignments to their opaque atoms.

Used to decide equality of *piecewise-linear* class functions (min / max / comparisons of unit-slope linear forms): two such functions whose
breakpoints are linear in the parameters agree everywhere iff they agree on a grid that straddles every breakpoint, so the comparison is a
decision procedure on the extracted term - it evaluates the term, never the program."""
from __future__ import annotations
from fractions import Fraction
from .poly import Poly, Atom
from .sym import Seq, Const, as_poly


class Unknown(Exception):
  pass


def ev(p, env):
  """Integer value of a Poly under env: {Atom or repr(Atom): int}."""
  if isinstance(p, Const):
    return int(p.v)
  p = as_poly(p)
  tot = Fraction(0)
  for mono, c in p.t.items():
    term = Fraction(c)
    for a, e in mono:
      term *= Fraction(atom(a, env)) ** e
    tot += term
  if tot.denominator != 1:
    raise Unknown("non-integer value")
  return int(tot)


def atom(a, env):
  if a in env:
    return env[a]
  if repr(a) in env:
    return env[repr(a)]
  k = a.kind
  if k in ("min", "max"):
    vals = [ev(x, env) for x in a.args]
    return min(vals) if k == "min" else max(vals)
  if k == "fdiv":
    d = ev(a.args[1], env)
    if d == 0:
      raise Unknown("division by zero")
    return ev(a.args[0], env) // d
  if k == "mod":
    d = ev(a.args[1], env)
    if d == 0:
      raise Unknown("division by zero")
    return ev(a.args[0], env) % d
  if k == "abs":
    return abs(ev(a.args[0], env))
  if k == "ite" and len(a.args) == 3:
    from . import sym as _sym
    c = _sym.ITE_CONDS.get(a.args[0].as_atom().args[0]) if isinstance(a.args[0], Poly) and a.args[0].as_atom() is not None else None
    if c is None:
      raise Unknown("conditional expression with an unknown condition")
    return ev(a.args[1], env) if cond(c, env) else ev(a.args[2], env)
  raise Unknown("no value for %r" % (a,))


def holds(fact, env):
  """Truth of a cmp fact under env (None when not evaluable)."""
  if fact[0] != "cmp" or isinstance(fact[2], Seq) or isinstance(fact[3], Seq):
    return None
  try:
    x, y = ev(fact[2], env), ev(fact[3], env)
  except Unknown:
    return None
  return {"Lt": x < y, "LtE": x <= y, "Gt": x > y, "GtE": x >= y, "Eq": x == y, "NotEq": x != y}.get(fact[1])


def cond(c, env):
  """Truth value of a walker condition tree under env."""
  k = c[0]
  if k == "not":
    return not cond(c[1], env)
  if k == "and":
    return all(cond(x, env) for x in c[1])
  if k == "or":
    return any(cond(x, env) for x in c[1])
  if k == "const":
    return bool(c[1])
  if k == "cmp":
    h = holds(c, env)
    if h is None:
      raise Unknown("comparison outside the grid variables: %r" % (c,))
    return h
  if k == "truthy":
    return ev(c[1], env) != 0
  raise Unknown("condition %r" % (k,))
