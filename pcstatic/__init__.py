"""pcstatic: repository-specific static analysis engine for google/paranoid_crypto.

Pure standard library (ast, fractions, json, re).  Never imports or executes /repo.
"""
