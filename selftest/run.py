#!/venv/bin/python
"""Sensitivity self-test: applies each catalogued single edit to a scratch copy of /repo's current
tree (outside /repo and /verif, removed afterwards) and runs the static check on the copy.

  F rows must make the named property's check exit 1 (and name the rule);
  T rows (behaviour-preserving twins) must leave it at exit 0.

usage: run.py [--prop C16] [--id D11] [--jobs 16] [-v]
Exit 0 when every applicable row behaves as catalogued, 2 otherwise (checker broken, never 1).
"""
import sys, os, shutil, tempfile, subprocess, json, concurrent.futures as cf, time
HERE = os.path.dirname(os.path.abspath(__file__))
VERIF = os.path.dirname(HERE)
sys.path.insert(0, HERE)
REPO = os.environ.get("PCSTATIC_REPO", "/repo")
KEEP = ("paranoid_crypto", "examples", "docs", "README.md", "setup.py")


def make_copy(dst):
  for k in KEEP:
    s = os.path.join(REPO, k)
    d = os.path.join(dst, k)
    if os.path.isdir(s):
      shutil.copytree(s, d, ignore=shutil.ignore_patterns("*.lzma", "*.dat", "__pycache__", "*.so", "*.pyc"))
    elif os.path.exists(s):
      shutil.copy(s, d)


def run_one(row, verbose=False):
  tmp = tempfile.mkdtemp(prefix="pcst_")
  try:
    make_copy(tmp)
    edits = row.get("edits") or [{"file": row["file"], "old": row["old"], "new": row["new"]}]
    for ed in edits:
      p = os.path.join(tmp, ed["file"])
      try:
        src = open(p).read()
      except OSError:
        return (row, "skipped", "file missing")
      if src.count(ed["old"]) > 1 and ed.get("line"):
        # a hunk of a stored patch: take the occurrence nearest to the line the patch names
        starts = []
        pos = src.find(ed["old"])
        while pos >= 0:
          starts.append(pos)
          pos = src.find(ed["old"], pos + 1)
        best = min(starts, key=lambda q: abs(src.count("\n", 0, q) + 1 - ed["line"]))
        src = src[:best] + ed["new"] + src[best + len(ed["old"]):]
      elif src.count(ed["old"]) != 1:
        return (row, "skipped", "anchor text occurs %d times" % src.count(ed["old"]))
      else:
        src = src.replace(ed["old"], ed["new"])
      if p.endswith(".py"):
        try:
          compile(src, p, "exec")
        except SyntaxError as e:
          return (row, "broken-row", "mutant does not compile: %s" % e)
      open(p, "w").write(src)
    env = dict(os.environ, PCSTATIC_EVIDENCE_DIR=os.path.join(tmp, "_ev"))
    props = row["prop"] if isinstance(row["prop"], list) else [row["prop"]]
    outs = []
    status = "ok"
    for prop in props:
      r = subprocess.run(["/venv/bin/python", os.path.join(VERIF, "check.py"), prop, "--repo", tmp, "--tier", "quick"],
                         capture_output=True, text=True, env=env, timeout=600)
      out = r.stdout
      outs.append(out)
      if row["expect"] == "fire":
        if r.returncode != 1 or "VIOLATION property=%s" % prop not in out:
          status = "MISSED(exit %d)" % r.returncode
        elif row.get("rule") and row["rule"] not in out:
          status = "WRONG-RULE"
      elif row["expect"] == "undecided":
        # documents a limit: the edit breaks the property, the analysis honestly answers "cannot decide" (exit 2), never "holds"
        if r.returncode == 0:
          status = "SILENT-PASS"
      else:
        if r.returncode != 0:
          status = "FALSE-ALARM(exit %d)" % r.returncode
    detail = ""
    if status != "ok" or verbose:
      detail = "\n".join(l for o in outs for l in o.splitlines() if l.startswith(("  violated", "ANALYSIS", "KNOWN")))
    return (row, status, detail)
  finally:
    shutil.rmtree(tmp, ignore_errors=True)


def main(argv):
  import catalogue
  rows = catalogue.ROWS
  jobs = 16
  verbose = "-v" in argv
  if "--prop" in argv:
    p = argv[argv.index("--prop") + 1]
    rows = [r for r in rows if p in (r["prop"] if isinstance(r["prop"], list) else [r["prop"]])]
  if "--id" in argv:
    i = argv[argv.index("--id") + 1]
    rows = [r for r in rows if r["id"] == i]
  if "--jobs" in argv:
    jobs = int(argv[argv.index("--jobs") + 1])
  t0 = time.time()
  bad = 0
  skipped = 0
  with cf.ThreadPoolExecutor(max_workers=jobs) as ex:
    for row, status, detail in ex.map(lambda r: run_one(r, verbose), rows):
      if status == "skipped":
        skipped += 1
      elif status != "ok":
        bad += 1
      print("%-6s %-4s %-6s %-28s %s" % (row["id"], row["expect"], "/".join(row["prop"]) if isinstance(row["prop"], list) else row["prop"],
                                         status, row.get("what", "")))
      if detail:
        print("        " + detail.replace("\n", "\n        "))
  print("selftest: %d rows, %d inconsistent, %d skipped, %.1fs" % (len(rows), bad, skipped, time.time() - t0))
  return 2 if bad else 0


if __name__ == "__main__":
  sys.exit(main(sys.argv))
