"""Sensitivity catalogue: single edits of the current tree (F = must fire, T = must stay silent).

Rows are located by exact source text that must occur exactly once in the file; a row whose anchor
is gone is skipped (and counted).  Every F row still compiles and leaves the 74 baseline tests alone.
"""
L = "paranoid_crypto/lib/"
ROWS = []


def F(id, prop, file, old, new, rule=None, what=""):
  ROWS.append({"id": id, "prop": prop, "file": file, "old": old, "new": new, "expect": "fire", "rule": rule, "what": what})


def T(id, prop, file, old, new, what=""):
  ROWS.append({"id": id, "prop": prop, "file": file, "old": old, "new": new, "expect": "silent", "what": what})


# ---------------------------------------------------------------------------------- C16
F("D11", "C16", L + "util.py", "old_test_result.result |= test_result.result", "old_test_result.result = test_result.result",
  "R-C16-MONO", "|= -> = on existing entry")
F("D12", "C16", L + "util.py", "old_test_result.severity = max(old_test_result.severity,", "old_test_result.severity = min(old_test_result.severity,",
  "R-C16-MONO", "max -> min severity")
F("D13", "C16", L + "util.py", "    test_info.weak = True\n", "    test_info.weak = True\n  else:\n    test_info.weak = False\n",
  "R-C16-WRITERS", "weak cleared on negative result")
F("D13b", "C16", L + "util.py", "  if test_result.result:\n    # When", "  if True:\n    # When",
  "R-C16-MONO", "weak set unconditionally")
F("D13c", "C16", L + "util.py", "  if not test_info.paranoid_lib_version:\n", "  if True:\n",
  "R-C16-MONO", "version overwritten")
F("D13d", "C16", L + "util.py", "  old_test_result = GetTestResult(test_info, test_result.test_name)\n  if old_test_result:",
  "  old_test_result = GetTestResult(test_info, test_result.test_name)\n  if old_test_result and test_result.result:",
  "R-C16-MONO", "duplicate entries appended for negative results")
F("D13e", "C16", L + "util.py", "    if test_result.test_name == test_name:\n      return test_result", "    if test_result.test_name != test_name:\n      return test_result",
  "R-C16-MONO", "GetTestResult matches wrong name")
F("D14", "C16", L + "rsa_single_checks.py", "    super().__init__(paranoid_pb2.SeverityType.SEVERITY_HIGH)\n    self._fc", "    super().__init__(paranoid_pb2.SeverityType.SEVERITY_MEDIUM)\n    self._fc",
  "R-C16-SEVERITY", "CheckROCA severity != README")
F("D15", "C16", L + "rsa_single_checks.py",
  "        any_weak = True\n        test_result.result = True\n      util.SetTestResult(key.test_info, test_result)\n    return any_weak\n\n\nclass CheckROCA(",
  "        any_weak = True\n        test_result.result = True\n        util.SetTestResult(key.test_info, test_result)\n    return any_weak\n\n\nclass CheckROCA(",
  "R-C16-ONCE", "CheckExponents: entry only recorded when positive")
F("D16", "C16", L + "rsa_single_checks.py",
  "          any_weak = True\n          test_result.result = True\n          break\n      util.SetTestResult(key.test_info, test_result)\n    return any_weak\n\n\nclass CheckPermutedBitPatterns",
  "          any_weak = True\n          test_result.result = True\n          util.SetTestResult(key.test_info, test_result)\n          break\n      util.SetTestResult(key.test_info, test_result)\n    return any_weak\n\n\nclass CheckPermutedBitPatterns",
  "R-C16-ONCE", "CheckBitPatterns: two records on the positive path")
F("D17", "C16", L + "rsa_single_checks.py",
  "        if test_result.result:\n          break\n      util.SetTestResult(key.test_info, test_result)",
  "        if test_result.result:\n          break\n      if test_result.result:\n        break\n      util.SetTestResult(key.test_info, test_result)",
  "R-C16-ONCE", "break promoted to the artifact loop")
F("D18", "C16", L + "paranoid.py", "    any_weak |= res\n", "    any_weak = res\n", "R-C16-PAIR", "or-accumulation lost")
F("D19", "C16", L + "paranoid.py", "    rsa_single_checks.CheckSizes,\n    rsa_single_checks.CheckExponents,", "    rsa_single_checks.CheckSizes,\n    rsa_single_checks.CheckSizes,\n    rsa_single_checks.CheckExponents,",
  "R-C16-REGISTRY", "class listed twice")
F("D18b", "C16", L + "rsa_single_checks.py",
  "      if factors:\n        logging.warning(\"Key factored! Factors: %s\\n%s\", factors, key.rsa_info)\n        util.AttachFactors(key.test_info, consts.INFO_NAME_N_FACTORS, factors)\n        any_weak = True\n        test_result.result = True\n      util.SetTestResult(key.test_info, test_result)\n    return any_weak\n\n\nclass CheckHighAndLowBitsEqual",
  "      if factors:\n        logging.warning(\"Key factored! Factors: %s\\n%s\", factors, key.rsa_info)\n        util.AttachFactors(key.test_info, consts.INFO_NAME_N_FACTORS, factors)\n        test_result.result = True\n      util.SetTestResult(key.test_info, test_result)\n    return any_weak\n\n\nclass CheckHighAndLowBitsEqual",
  "R-C16-PAIR", "CheckFermat: any_weak forgotten")
F("D18c", "C16", L + "ec_single_checks.py",
  "      test_result = self._CreateTestResult()\n      if curve.n.bit_length()", "      if curve.n.bit_length()",
  None, "CheckWeakCurve: entry not created per key (compile ok, NameError at run)")
F("D18d", "C16", L + "rsa_single_checks.py",
  "    any_weak = False\n    for key in artifacts:\n      test_result = self._CreateTestResult()\n      e = gmpy.mpz",
  "    any_weak = False\n    test_result = self._CreateTestResult()\n    for key in artifacts:\n      e = gmpy.mpz",
  "R-C16-ONCE", "CheckExponents: one entry object shared by all keys")
F("D18e", "C16", L + "rsa_aggregate_checks.py", "      key = artifacts[i]\n", "      key = artifacts[i - 1]\n", "R-C16-ONCE", "CheckGCD: result recorded on the neighbour")
F("D18f", "C16", L + "ecdsa_sig_checks.py",
  "        test_result.severity = util.GetHighestSeverity(key.test_info)\n", "        test_result.severity = paranoid_pb2.SeverityType.SEVERITY_LOW\n",
  "R-C16-ENTRY", "issuer severity constant")
F("D18g", "C16", L + "base_check.py", "severity=self.severity, test_name=self.check_name, result=False)", "severity=self.severity, test_name=self.check_name, result=True)",
  "R-C16-ENTRY", "entries start positive")
F("D18h", "C16", L + "ecdsa_sig_checks.py", "      for i in points[ec_util.PublicPoint(key.ec_info)]:\n        util.SetTestResult(artifacts[i].test_info, test_result)",
  "      for i in points[ec_util.PublicPoint(key.ec_info)][:1]:\n        util.SetTestResult(artifacts[i].test_info, test_result)",
  "R-C16-ISSUER", "only first signature of an issuer gets the verdict")
F("D18i", "C16", L + "util.py", "    old_attached_info.value = value  # update", "    test_info.attached_info.remove(old_attached_info)\n    old_attached_info.value = value  # update",
  "R-C16-WRITERS", "foreign mutation of attached_info")
F("D18j", "C16", L + "paranoid.py", "  return _CheckArtifacts(rsa_keys, list(GetRSAAllChecks().items()), log_level)", "  return _CheckArtifacts(rsa_keys, list(GetRSASingleChecks().items()), log_level)",
  "R-C16-PAIR", "entry point skips aggregate checks")
T("D21", "C16", L + "rsa_single_checks.py",
  "    any_weak = False\n    for key in artifacts:\n      test_result = self._CreateTestResult()\n      e = gmpy.mpz(util.Bytes2Int(key.rsa_info.e))\n      if e != 65537:\n        logging.warning(\n            \"Exponent check failed! Exponent: %d\\n%s\", e, key.rsa_info\n        )\n        any_weak = True\n        test_result.result = True\n      util.SetTestResult(key.test_info, test_result)\n    return any_weak",
  "    found = False\n    for k in artifacts:\n      entry = self._CreateTestResult()\n      e = gmpy.mpz(util.Bytes2Int(k.rsa_info.e))\n      if e != 65537:\n        logging.warning(\n            \"Exponent check failed! Exponent: %d\\n%s\", e, k.rsa_info\n        )\n        found = True\n        entry.result = True\n      util.SetTestResult(k.test_info, entry)\n    return found",
  "rename locals in CheckExponents")
T("D21b", "C16", L + "util.py", "    old_test_result.result |= test_result.result  # update", "    old_test_result.result = old_test_result.result or test_result.result  # update",
  "|= written as `or`")
T("D21c", "C16", L + "rsa_aggregate_checks.py", "    for i in range(len(gcds)):\n      test_result = self._CreateTestResult()\n      key = artifacts[i]\n",
  "    for i, key in enumerate(artifacts):\n      test_result = self._CreateTestResult()\n", "CheckGCD loop via enumerate")
