"""Sensitivity catalogue: single edits of the current tree (F = must fire, T = must stay silent).

Rows are located by exact source text that must occur exactly once in the file; a row whose anchor
is gone is skipped (and counted).  Every F row still compiles and leaves the 74 baseline tests alone.
"""
L = "paranoid_crypto/lib/"
ROWS = []


def F(id, prop, file, old, new, rule=None, what=""):
  ROWS.append({"id": id, "prop": prop, "file": file, "old": old, "new": new, "expect": "fire", "rule": rule, "what": what})


def U(id, prop, file, old, new, what=""):
  """property-breaking edit on which the analysis must at least refuse to pass (exit 1 or 2)."""
  ROWS.append({"id": id, "prop": prop, "file": file, "old": old, "new": new, "expect": "undecided", "what": what})


def T(id, prop, file, old, new, what=""):
  ROWS.append({"id": id, "prop": prop, "file": file, "old": old, "new": new, "expect": "silent", "what": what})


# ---------------------------------------------------------------------------------- C16
F("D11", "C16", L + "util.py", "old_test_result.result |= test_result.result", "old_test_result.result = test_result.result",
  "R-C16-MONO", "|= -> = on existing entry")
F("D12", "C16", L + "util.py", "old_test_result.severity = max(old_test_result.severity,", "old_test_result.severity = min(old_test_result.severity,",
  "R-C16-MONO", "max -> min severity")
F("D13", "C16", L + "util.py", "    test_info.weak = True\n", "    test_info.weak = True\n  else:\n    test_info.weak = False\n",
  "R-C16-WRITERS", "weak cleared on negative result")
F("D13b", "C16", L + "util.py", "  if test_result.result:\n    # When", "  if True:\n    # When",
  "R-C16-MONO", "weak set unconditionally")
F("D13c", "C16", L + "util.py", "  if not test_info.paranoid_lib_version:\n", "  if True:\n",
  "R-C16-MONO", "version overwritten")
F("D13d", "C16", L + "util.py", "  old_test_result = GetTestResult(test_info, test_result.test_name)\n  if old_test_result:",
  "  old_test_result = GetTestResult(test_info, test_result.test_name)\n  if old_test_result and test_result.result:",
  "R-C16-MONO", "duplicate entries appended for negative results")
F("D13e", "C16", L + "util.py", "    if test_result.test_name == test_name:\n      return test_result", "    if test_result.test_name != test_name:\n      return test_result",
  "R-C16-MONO", "GetTestResult matches wrong name")
F("D14", "C16", L + "rsa_single_checks.py", "    super().__init__(paranoid_pb2.SeverityType.SEVERITY_HIGH)\n    self._fc", "    super().__init__(paranoid_pb2.SeverityType.SEVERITY_MEDIUM)\n    self._fc",
  "R-C16-SEVERITY", "CheckROCA severity != README")
F("D15", "C16", L + "rsa_single_checks.py",
  "        any_weak = True\n        test_result.result = True\n      util.SetTestResult(key.test_info, test_result)\n    return any_weak\n\n\nclass CheckROCA(",
  "        any_weak = True\n        test_result.result = True\n        util.SetTestResult(key.test_info, test_result)\n    return any_weak\n\n\nclass CheckROCA(",
  "R-C16-ONCE", "CheckExponents: entry only recorded when positive")
F("D16", "C16", L + "rsa_single_checks.py",
  "          any_weak = True\n          test_result.result = True\n          break\n      util.SetTestResult(key.test_info, test_result)\n    return any_weak\n\n\nclass CheckPermutedBitPatterns",
  "          any_weak = True\n          test_result.result = True\n          util.SetTestResult(key.test_info, test_result)\n          break\n      util.SetTestResult(key.test_info, test_result)\n    return any_weak\n\n\nclass CheckPermutedBitPatterns",
  "R-C16-ONCE", "CheckBitPatterns: two records on the positive path")
F("D17", "C16", L + "rsa_single_checks.py",
  "        if test_result.result:\n          break\n      util.SetTestResult(key.test_info, test_result)",
  "        if test_result.result:\n          break\n      if test_result.result:\n        break\n      util.SetTestResult(key.test_info, test_result)",
  "R-C16-ONCE", "break promoted to the artifact loop")
F("D18", "C16", L + "paranoid.py", "    any_weak |= res\n", "    any_weak = res\n", "R-C16-PAIR", "or-accumulation lost")
F("D19", "C16", L + "paranoid.py", "    rsa_single_checks.CheckSizes,\n    rsa_single_checks.CheckExponents,", "    rsa_single_checks.CheckSizes,\n    rsa_single_checks.CheckSizes,\n    rsa_single_checks.CheckExponents,",
  "R-C16-REGISTRY", "class listed twice")
F("D18b", "C16", L + "rsa_single_checks.py",
  "      if factors:\n        logging.warning(\"Key factored! Factors: %s\\n%s\", factors, key.rsa_info)\n        util.AttachFactors(key.test_info, consts.INFO_NAME_N_FACTORS, factors)\n        any_weak = True\n        test_result.result = True\n      util.SetTestResult(key.test_info, test_result)\n    return any_weak\n\n\nclass CheckHighAndLowBitsEqual",
  "      if factors:\n        logging.warning(\"Key factored! Factors: %s\\n%s\", factors, key.rsa_info)\n        util.AttachFactors(key.test_info, consts.INFO_NAME_N_FACTORS, factors)\n        test_result.result = True\n      util.SetTestResult(key.test_info, test_result)\n    return any_weak\n\n\nclass CheckHighAndLowBitsEqual",
  "R-C16-PAIR", "CheckFermat: any_weak forgotten")
F("D18c", "C16", L + "ec_single_checks.py",
  "      test_result = self._CreateTestResult()\n      if curve.n.bit_length()", "      if curve.n.bit_length()",
  None, "CheckWeakCurve: entry not created per key (compile ok, NameError at run)")
F("D18d", "C16", L + "rsa_single_checks.py",
  "    any_weak = False\n    for key in artifacts:\n      test_result = self._CreateTestResult()\n      e = gmpy.mpz",
  "    any_weak = False\n    test_result = self._CreateTestResult()\n    for key in artifacts:\n      e = gmpy.mpz",
  "R-C16-ONCE", "CheckExponents: one entry object shared by all keys")
F("D18e", "C16", L + "rsa_aggregate_checks.py", "      key = artifacts[i]\n", "      key = artifacts[i - 1]\n", "R-C16-ONCE", "CheckGCD: result recorded on the neighbour")
F("D18f", "C16", L + "ecdsa_sig_checks.py",
  "        test_result.severity = util.GetHighestSeverity(key.test_info)\n", "        test_result.severity = paranoid_pb2.SeverityType.SEVERITY_LOW\n",
  "R-C16-ENTRY", "issuer severity constant")
F("D18g", "C16", L + "base_check.py", "severity=self.severity, test_name=self.check_name, result=False)", "severity=self.severity, test_name=self.check_name, result=True)",
  "R-C16-ENTRY", "entries start positive")
F("D18h", "C16", L + "ecdsa_sig_checks.py", "                       ec_util.PublicPoint(key.ec_info))]:\n        util.SetTestResult(artifacts[i].test_info, test_result)",
  "                       ec_util.PublicPoint(key.ec_info))][:1]:\n        util.SetTestResult(artifacts[i].test_info, test_result)",
  "R-C16-ISSUER", "only first signature of an issuer gets the verdict")
F("D18i", "C16", L + "util.py", "    old_attached_info.value = value  # update", "    test_info.attached_info.remove(old_attached_info)\n    old_attached_info.value = value  # update",
  "R-C16-WRITERS", "foreign mutation of attached_info")
F("D18j", "C16", L + "paranoid.py", "  return _CheckArtifacts(rsa_keys, list(GetRSAAllChecks().items()), log_level)", "  return _CheckArtifacts(rsa_keys, list(GetRSASingleChecks().items()), log_level)",
  "R-C16-PAIR", "entry point skips aggregate checks")
T("D21", "C16", L + "rsa_single_checks.py",
  "    any_weak = False\n    for key in artifacts:\n      test_result = self._CreateTestResult()\n      e = gmpy.mpz(util.Bytes2Int(key.rsa_info.e))\n      if e != 65537:\n        logging.warning(\n            \"Exponent check failed! Exponent: %d\\n%s\", e, key.rsa_info\n        )\n        any_weak = True\n        test_result.result = True\n      util.SetTestResult(key.test_info, test_result)\n    return any_weak",
  "    found = False\n    for k in artifacts:\n      entry = self._CreateTestResult()\n      e = gmpy.mpz(util.Bytes2Int(k.rsa_info.e))\n      if e != 65537:\n        logging.warning(\n            \"Exponent check failed! Exponent: %d\\n%s\", e, k.rsa_info\n        )\n        found = True\n        entry.result = True\n      util.SetTestResult(k.test_info, entry)\n    return found",
  "rename locals in CheckExponents")
T("D21b", "C16", L + "util.py", "    old_test_result.result |= test_result.result  # update", "    old_test_result.result = old_test_result.result or test_result.result  # update",
  "|= written as `or`")
T("D21c", "C16", L + "rsa_aggregate_checks.py", "    for i in range(len(gcds)):\n      test_result = self._CreateTestResult()\n      key = artifacts[i]\n",
  "    for i, key in enumerate(artifacts):\n      test_result = self._CreateTestResult()\n", "CheckGCD loop via enumerate")

# ---------------------------------------------------------------------------------- C01
F("A01", "C01", L + "rsa_util.py", "    b2 += a\n    a += 1\n    b2 += a\n", "    b2 += a\n    a += 1\n", "R-C01-CERT", "Fermat: second b2 update lost")
F("A02", "C01", L + "rsa_util.py", "      return a + gmpy.isqrt(b2), a - gmpy.isqrt(b2)", "      return a + gmpy.isqrt(b2), a - gmpy.isqrt(b2) - 1", "R-C01-CERT", "Fermat: off by one factor")
F("A03", "C01", L + "rsa_util.py", "    if gmpy.is_square(b2):\n      return a + gmpy.isqrt(b2)", "    if b2 >= 0:\n      return a + gmpy.isqrt(b2)", "R-C01-CERT", "Fermat: square test dropped")
T("A07", "C01", L + "rsa_util.py", "    b2 += a\n    a += 1\n    b2 += a\n", "    a += 1\n    b2 = a * a - n\n", "Fermat: non-incremental update")
T("A08", "C01", L + "rsa_util.py", "    if gmpy.is_square(b2):\n      return a + gmpy.isqrt(b2), a - gmpy.isqrt(b2)\n", "    if gmpy.is_square(b2):\n      r = gmpy.isqrt(b2)\n      return a + r, a - r\n", "Fermat: temp for isqrt")
F("A09", "C01", L + "rsa_util.py", "          d = s**2 - n\n", "          d = s**2 + n\n", "R-C01-CERT", "HighLow: d = s^2 + n")
F("A10", "C01", L + "rsa_util.py", "    p = gmpy.gcd(ax * w + cx, n)\n    if 1 < p < n:", "    p = gmpy.gcd(ax * w + cx, n)\n    if 1 <= p < n:", "R-C01-PROPER", "CheckFraction: 1 <= p")
F("A11", "C01", L + "rsa_util.py", "    if 1 < p < n:\n      return True, [p, n // p]", "    if 1 < p < n:\n      return True, [p, (n - 1) // p]", "R-C01-CERT", "Pollard: (n-1)//p")
F("A12", "C01", L + "rsa_util.py", "        p = gmpy.gcd(n, 2 * a * x + b + rt)", "        p = gmpy.gcd(m, 2 * a * x + b + rt)", "R-C01-CERT", "CF: gcd with m")
F("A13", "C01", L + "rsa_util.py", "          if rem0 == 0:\n            return True, [p0, q0]", "          if rem0 <= 1:\n            return True, [p0, q0]", "R-C01-CERT", "LHW: rem0 <= 1")
F("A14", "C01", L + "special_case_factoring.py", "          return [g, n // g]", "          return [g, n // (g + 1)]", "R-C01-CERT", "FactorWithGuess: n // (g+1)")
F("A15", "C01", L + "rsa_single_checks.py", "        if p * q == n:\n", "        if p * q <= n:\n", "R-C01-SINK", "Keypair: p*q <= n")
F("A16", "C01", L + "rsa_aggregate_checks.py", "        util.AttachFactors(key.test_info, consts.INFO_NAME_N_FACTORS, factors)", "        util.AttachFactors(artifacts[i - 1].test_info, consts.INFO_NAME_N_FACTORS, factors)", "R-C01-SINK", "CheckGCD: factors attached to neighbour")
F("A17", "C01", L + "rsa_aggregate_checks.py", "            key.test_info, consts.INFO_NAME_NM1_FACTORS, [gcds[i]]", "            key.test_info, consts.INFO_NAME_N_FACTORS, [gcds[i]]", "R-C01-SINK", "GCDN1 under N_FACTORS")
F("A18", ["C01", "C16"], L + "rsa_single_checks.py",
  "        util.AttachFactors(key.test_info, consts.INFO_NAME_N_FACTORS, factors)\n        any_weak = True\n        test_result.result = True\n      util.SetTestResult(key.test_info, test_result)\n    return any_weak\n\n\nclass CheckHighAndLowBitsEqual",
  "        util.AttachFactors(key.test_info, consts.INFO_NAME_N_FACTORS, factors)\n      util.SetTestResult(key.test_info, test_result)\n    return any_weak\n\n\nclass CheckHighAndLowBitsEqual",
  None, "CheckFermat: attach without marking weak")
F("A19", "C01", L + "util.py", "    factors = factors.union(old_set)  # update", "    factors = factors  # update", "R-C01-MERGE", "union -> overwrite")
F("A20", "C01", L + "rsa_util.py", "  return [gcds_dict[v] for v in values]", "  return [gcds_dict[v] for v in unique_values]", "R-C01-CERT", "BatchGCD: result over unique_values")
T("A21", "C01", L + "rsa_util.py", "  return [gcds_dict[v] for v in values]", "  out = [gcds_dict[x] for x in values]\n  return out", "BatchGCD: temp + rename")
F("A30", "C01", L + "rsa_aggregate_checks.py", "        factors = [gcds[i], gmpy.mpz(util.Bytes2Int(key.rsa_info.n)) // gcds[i]]", "        factors = [gcds[i], gmpy.mpz(util.Bytes2Int(key.rsa_info.e)) // gcds[i]]", "R-C01-SINK", "CheckGCD: cofactor of e")
F("A31", "C01", L + "rsa_aggregate_checks.py", "      if gcds[i] != 1:", "      if gcds[i] != 0:", "R-C01-SINK", "CheckGCD: flags gcd 1")
F("A32", "C01", L + "rsa_single_checks.py", "      factors = rsa_util.FermatFactor(n, self._max_steps)", "      factors = rsa_util.FermatFactor(n + 2, self._max_steps)", "R-C01-SINK", "Fermat applied to n+2")
F("A33", "C01", L + "rsa_util.py", "  if n % 2 == 0:\n    return 2, n // 2", "  if n % 2 == 1:\n    return 2, n // 2", "R-C01-CERT", "Fermat parity guard flipped")
F("A34", "C01", L + "rsa_util.py", "  if a * a == n:\n    return a, a", "  if a * a <= n:\n    return a, a", "R-C01-CERT", "Fermat square guard weakened")
F("A35", "C01", L + "rsa_util.py", "            return [s - d_sqrt, s + d_sqrt]", "            return [s - d_sqrt, s + d_sqrt + 2]", "R-C01-CERT", "HighLow: wrong second factor")
T("A36", "C01", L + "special_case_factoring.py", "        if 1 < g < n:\n          return [g, n // g]", "        if g > 1 and g < n:\n          return [g, n // g]", "guard split")

# ---------------------------------------------------------------------------------- C18
F("D22", "C18", L + "ntheory_util.py", "  if not values:\n    # Empty batch: the empty product is 1 and T, an empty sum, is 0.\n    return [values], 0\n", "", "R-C18-EMPTY", "remove the empty-batch guard (fixed defect returns)")
F("B25", "C18", L + "ec_single_checks.py", "      if not keys:\n        continue\n", "", "R-C18-EMPTY", "CheckWeakECPrivateKey: empty-partition guard removed")
F("B26", "C18", L + "ec_single_checks.py", "      if curve is None:\n        # Skipping the test. CheckValidECKey already checks this.\n        continue\n", "", "R-C18-NULL", "CheckWeakCurve: None guard removed")
F("B26b", "C18", L + "ec_single_checks.py", "      curve = ec_util.CURVE_FACTORY.get(key.ec_info.curve_type, None)\n      if curve is None:\n        logging.warning(\"Unknown curve",
  "      curve = ec_util.CURVE_FACTORY[key.ec_info.curve_type]\n      if curve is None:\n        logging.warning(\"Unknown curve", "R-C18-NULL", "CheckValidECKey: .get -> [] (KeyError on unknown id)")
F("B26c", "C18", L + "ecdsa_sig_checks.py", "class CheckCr50U2f(base_check.ECDSASignatureCheck):\n  \"\"\"Checks whether the signatures use weak nonces like in the CR50 U2F flaw.\"\"\"\n\n  def __init__(self):\n    super().__init__(paranoid_pb2.SeverityType.SEVERITY_CRITICAL)\n\n  def Check(self, artifacts: list[paranoid_pb2.ECDSASignature]) -> bool:\n    any_weak = False\n    for curve_id, curve in ec_util.CURVE_FACTORY.items():\n      if curve is None:\n        continue\n",
  "class CheckCr50U2f(base_check.ECDSASignatureCheck):\n  \"\"\"Checks whether the signatures use weak nonces like in the CR50 U2F flaw.\"\"\"\n\n  def __init__(self):\n    super().__init__(paranoid_pb2.SeverityType.SEVERITY_CRITICAL)\n\n  def Check(self, artifacts: list[paranoid_pb2.ECDSASignature]) -> bool:\n    any_weak = False\n    for curve_id, curve in ec_util.CURVE_FACTORY.items():\n",
  "R-C18-NULL", "CheckCr50U2f: None guard removed")
T("D23", "C18", L + "ecdsa_sig_checks.py", "      sigs = [s for s in artifacts if s.issuer_key_info.curve_type == curve_id]\n      if not sigs:\n        continue\n      pks = _MapIssuerSigIndexes(sigs)\n      guesses = set()\n      for _, idxs in pks.items():\n        # Exclude duplicate signatures from the actual processing\n        unique_vals = list({\n            ec_util.ECDSAValues(sigs[idx].ecdsa_sig_info, curve) for idx in idxs\n        })\n        # Sliding",
  "      sigs = [s for s in artifacts if s.issuer_key_info.curve_type == curve_id]\n      pks = _MapIssuerSigIndexes(sigs)\n      guesses = set()\n      for _, idxs in pks.items():\n        # Exclude duplicate signatures from the actual processing\n        unique_vals = list({\n            ec_util.ECDSAValues(sigs[idx].ecdsa_sig_info, curve) for idx in idxs\n        })\n        # Sliding",
  "CheckCr50U2f: `if not sigs` removed - not load-bearing, no exception on the empty partition")
F("D23b", "C18", L + "ecdsa_sig_checks.py", "    pks[ec_util.PublicPoint(sig.issuer_key_info)].append(i)\n  return pks", "    pks[ec_util.PublicPoint(sig.issuer_key_info)].append(i)\n  pks[(0, 0)] = []\n  return pks",
  "R-C18-NONEMPTY-DICT", "issuer map gets an empty entry -> unique_vals[-1] IndexError")
F("D23c", "C18", L + "rsa_single_checks.py", "        any_weak = True\n        test_result.result = True\n      util.SetTestResult(key.test_info, test_result)\n    return any_weak\n\n\nclass CheckROCA(",
  "        any_weak = True\n        test_result.result = True\n      util.SetTestResult(key.test_info, test_result)\n    return any_weak or None\n\n\nclass CheckROCA(", "R-C18-BOOL", "CheckExponents returns None for healthy batches")
F("D23d", "C18", L + "rsa_util.py", "  unique_values = list(set(values))\n  prod_tree, t = ntheory_util.ExtendedProductTree(unique_values)", "  unique_values = list(set(values))\n  first = unique_values[0]\n  prod_tree, t = ntheory_util.ExtendedProductTree(unique_values)",
  "R-C18-EMPTY", "BatchGCD indexes the first element")
F("D23e", "C18", L + "paranoid.py", "  any_weak = False\n  start_total = time.time()", "  any_weak = False\n  first_key = artifacts[0]\n  start_total = time.time()", "R-C18-EMPTY", "_CheckArtifacts touches artifacts[0]")

# ---------------------------------------------------------------------------------- C03
N = L + "ntheory_util.py"
RU = L + "rsa_util.py"
AG = L + "rsa_aggregate_checks.py"
F("E01", "C03", N, "    t = [a * d + b * c for a, b, c, d in quadruplewise]", "    t = [a * c + b * d for a, b, c, d in quadruplewise]", "R-C03-TREE", "T step: wrong cross terms")
F("E02", "C03", N, "    quadruplewise = zip(t[::2], t[1::2], values[::2], values[1::2])", "    quadruplewise = zip(t[::2], t[1::2], values[1::2], values[::2])", "R-C03-TREE", "T step: P_L/P_R swapped")
F("E03", "C03", N, "    if len(values) % 2 == 1:\n      t.append(last_t)", "    if len(values) % 2 == 0:\n      t.append(last_t)", "R-C03-TREE", "carry on even levels")
F("E04", "C03", N, "    last_t = t[-1]\n", "    last_t = t[0]\n", "R-C03-TREE", "carry takes first node")
F("E05", "C03", N, "    t = [a * d + b * c for a, b, c, d in quadruplewise]\n    if len(values) % 2 == 1:\n      t.append(last_t)\n    pairwise = itertools.zip_longest(values[::2], values[1::2], fillvalue=1)",
  "    t = [a * d + b * c for a, b, c, d in quadruplewise]\n    if len(values) % 2 == 1:\n      t.append(last_t)\n    pairwise = itertools.zip_longest(values[::2], values[1::2], fillvalue=2)", "R-C03-TREE", "fill value 2 in ExtendedProductTree")
F("E06", "C03", N, "  while len(values) > 1:\n    last_t", "  while len(values) > 2:\n    last_t", "R-C03-TREE", "tree stops one level early")
F("E07", "C03", N, "  return prod_tree, t[0]", "  return prod_tree, t[-1]", "R-C03-TREE", "returns last instead of root")
F("E08", "C03", RU, "        remainders[i] = prev[i // 2] % unique_values[i]", "        remainders[i] = prev[(i + 1) // 2] % unique_values[i]", "R-C03-REMAINDER", "child reads wrong parent")
F("E09", "C03", RU, "        remainders[i] = prev[i // 2] % unique_values[i]", "        remainders[i] = prev[i // 2] % unique_values[i - 1]", "R-C03-REMAINDER", "reduced modulo the neighbour")
T("E10", "C03", RU, "      if i + 1 == len(unique_values) and i % 2 == 0:\n        remainders[i] = prev[i // 2]\n      else:\n        remainders[i] = prev[i // 2] % unique_values[i]", "      remainders[i] = prev[i // 2] % unique_values[i]", "pass-through removed (always reduce): behaviour-preserving")
F("E11", "C03", RU, "  gcds_dict = {v: gmpy.gcd(v, r) for v, r in zip(unique_values, remainders)}", "  gcds_dict = {v: gmpy.gcd(v, r) for v, r in zip(unique_values, remainders[1:])}", "R-C03-REMAINDER", "leaf zip shifted")
F("E12", "C03", RU, "  unique_values = list(set(values))\n", "  unique_values = list(values)\n", "R-C03-DEDUP", "dedup removed: identical moduli accuse each other")
F("E13", "C03", RU, "  if other_values_prod:\n    t *= other_values_prod\n", "  if other_values_prod:\n    t += other_values_prod\n", "R-C03-OTHER", "extra product added instead of multiplied")
F("E14", "C03", AG, "      if gcds[i] != 1:", "      if gcds[i] > 2:", "R-C03-VERDICT", "CheckGCD misses gcd 2")
F("E15", "C03", AG, "      if gcds[i] >= self._gcd_bound:", "      if gcds[i] > self._gcd_bound:", "R-C03-VERDICT", "GCDN1 strict bound")
F("E16", "C03", AG, "  def __init__(self, gcd_bound: int = 2**128):", "  def __init__(self, gcd_bound: int = 2**64):", "R-C03-VERDICT", "GCDN1 default bound")
F("E17", "C03", AG, "    vals = [gmpy.mpz(util.Bytes2Int(key.rsa_info.n)) - 1 for key in artifacts]", "    vals = [gmpy.mpz(util.Bytes2Int(key.rsa_info.n)) for key in artifacts]", "R-C03-VERDICT", "GCDN1 on n instead of n-1")
F("E18", "C03", N, "    values = [a * b for a, b in pairwise]\n    prod_tree.append(values)", "    values = [a * b for a, b in pairwise]\n    prod_tree.insert(0, values)", "R-C03-TREE", "levels stored in reverse order")
T("E19", "C03", N, "    last_t = t[-1]\n    quadruplewise = zip(t[::2], t[1::2], values[::2], values[1::2])\n    t = [a * d + b * c for a, b, c, d in quadruplewise]",
  "    last_t = t[-1]\n    t = [tl * pr + tr * pl for tl, tr, pl, pr in zip(t[::2], t[1::2], values[::2], values[1::2])]", "T step inlined with other names")
F("E20", "C03", N, "    pairwise = itertools.zip_longest(values[::2], values[1::2], fillvalue=1)\n    values = [a * b for a, b in pairwise]\n  return values[0]",
  "    pairwise = zip(values[::2], values[1::2])\n    values = [a * b for a, b in pairwise]\n  return values[0]", "R-C03-TREE", "FastProduct drops the unpaired node")
T("E21", "C03", N, "    quadruplewise = zip(t[::2], t[1::2], values[::2], values[1::2])\n    t = [a * d + b * c for a, b, c, d in quadruplewise]",
  "    quadruplewise = zip(t[1::2], t[::2], values[1::2], values[::2])\n    t = [a * d + b * c for a, b, c, d in quadruplewise]", "both pairs mirrored: same T")

# ---------------------------------------------------------------------------------- C04
SC = L + "special_case_factoring.py"
RS = L + "rsa_single_checks.py"
F("A04", "C04", RU, "  for _ in range(max_steps):\n    if gmpy.is_square(b2):", "  for _ in range(max_steps - 1):\n    if gmpy.is_square(b2):", "R-C04-FERMAT", "Fermat trip count - 1")
F("A05", "C04", RU, "  for _ in range(max_steps):\n    if gmpy.is_square(b2):\n      return a + gmpy.isqrt(b2), a - gmpy.isqrt(b2)\n\n    # or a += 1; b2 = a * a - n\n    b2 += a\n    a += 1\n    b2 += a\n",
  "  for _ in range(max_steps):\n    b2 += a\n    a += 1\n    b2 += a\n    if gmpy.is_square(b2):\n      return a + gmpy.isqrt(b2), a - gmpy.isqrt(b2)\n", "R-C04-FERMAT", "Fermat: advance before test (a0 skipped)")
F("A06", "C04", RU, "    b2 += a\n    a += 1\n    b2 += a\n", "    b2 += 4 * a + 4\n    a += 2\n", "R-C04-FERMAT", "Fermat: step 2 with matching b2")
T("A07b", "C04", RU, "    b2 += a\n    a += 1\n    b2 += a\n", "    a += 1\n    b2 = a * a - n\n", "Fermat: non-incremental update")
F("A06b", "C04", RU, "  a += 1  # ceil(sqrt(n))\n  b2 = a * a - n", "  a += 2  # ceil(sqrt(n))\n  b2 = a * a - n", "R-C04-FERMAT", "Fermat: start at isqrt+2")
F("A06c", "C04", RS, "      factors = rsa_util.FermatFactor(n, self._max_steps)", "      factors = rsa_util.FermatFactor(n, self._max_steps // 2)", "R-C04-FERMAT", "half the configured steps")
F("A22", "C04", RU, "    p0 = gmpy.isqrt(n + (diff // 2) ** 2) + diff // 2", "    p0 = gmpy.isqrt(n + (diff // 2) ** 2) + diff // 4", "R-C04-GUESS", "guess offset D/4")
F("A22b", "C04", RU, "    p0 = gmpy.isqrt(n + (diff // 2) ** 2) + diff // 2", "    p0 = gmpy.isqrt(n + (diff // 4) ** 2) + diff // 2", "R-C04-GUESS", "radicand with D/4")
F("A23", "C04", RU, "      2 ** (prime_size - 160),\n", "", "R-C04-TABLE", "difference 2^(L-160) dropped")
F("A23b", "C04", RU, "      2 ** (prime_size - 100),\n", "      2 ** (prime_size - 101),\n", "R-C04-TABLE", "difference 2^(L-100) mistyped")
F("A24", "C04", RU, "  if prime_size < 384:\n    return None", "  if prime_size <= 384:\n    return None", "R-C04-TABLE", "gate excludes 384-bit primes")
F("A24b", "C04", RU, "  prime_size = n.bit_length() // 2\n", "  prime_size = n.bit_length() // 2 - 1\n", "R-C04-TABLE", "prime size off by one")
F("A25", "C04", RU, "    factors = special_case_factoring.FactorWithGuess(n, p0)\n    if factors:\n      return factors\n  return None",
  "    factors = special_case_factoring.FactorWithGuess(n, p0)\n    if factors:\n      return factors\n    return None\n  return None", "R-C04-EXHAUST", "give up after the first difference")
F("A26", "C04", SC, "        if 1 < g < n:\n          return [g, n // g]\n  return None", "        if 1 < g < n:\n          return [g, n // g]\n      return None\n  return None", "R-C04-EXHAUST", "re-introduce the in-loop return None (fixed defect)")
F("A27", "C04", RS, "        for p_1 in {p_0, p_0 | msb_1, p_0 | msb_11}:", "        for p_1 in {p_0, p_0 | msb_1}:", "R-C04-MSB", "msb_11 variant dropped")
F("A27b", "C04", RS, "      msb_1 = 2 ** (psize - 1)\n", "      msb_1 = 2 ** (psize - 2)\n", "R-C04-MSB", "msb at the wrong position")
F("A27c", "C04", RS, "          factors = special_case_factoring.FactorWithGuess(n, p_1)\n          if factors:\n            break\n",
  "          factors = special_case_factoring.FactorWithGuess(n, p_1)\n          break\n", "R-C04-EXHAUST", "only the first msb variant is tried")
F("A27d", "C05", RS, "          if d.bit_length() > max_dsize:\n            break\n          factors = rsa_util.CheckFraction(n, d)", "          if d.bit_length() > max_dsize:\n            break\n          factors = rsa_util.CheckFraction(n, d)\n          if not factors:\n            break",
  "R-C05-EXHAUST", "permuted patterns: stop at first failing psize")
T("A29", "C04", RU, "  differences = [\n      2 ** (prime_size - 100),\n      2 ** (prime_size - 128),\n      2 ** (prime_size - 160),\n      2 ** (prime_size - 256),\n      2 ** (prime_size - 2),\n      2 ** (prime_size - 3),\n  ]",
  "  differences = [2 ** (prime_size - k) for k in (100, 128, 160, 256, 2, 3)]", "differences via comprehension")
T("A29b", "C04", RU, "    p0 = gmpy.isqrt(n + (diff // 2) ** 2) + diff // 2", "    half = diff // 2\n    p0 = gmpy.isqrt(n + half * half) + half", "guess with a temp")

# ---------------------------------------------------------------------------------- C20
RG = L + "randomness_tests/rng.py"
F("D38", "C20", RG, "      x ^= y ^ (y >> 26)\n      blocks.append((x + y) % 2**64)\n    ba = bytearray().join(z.to_bytes(8, \"little\") for z in blocks)\n    res = int.from_bytes(ba, \"little\")\n    if n % 64 != 0:\n      res &= (1 << n) - 1",
  "      x ^= y ^ (y >> 26)\n      blocks.append((x + y) % 2**64)\n    ba = bytearray().join(z.to_bytes(8, \"little\") for z in blocks)\n    res = int.from_bytes(ba, \"little\")\n    if n % 64 != 0:\n      res &= (1 << (n + 1)) - 1",
  "R-C20-WIDTH", "XorShift128plus mask one bit too wide")
F("D39", "C20", RG, "    ba = os.urandom((n + 7) // 8)\n    seq = int.from_bytes(ba, \"little\")\n    if n % 8 != 0:\n      seq >>= -n % 8", "    ba = os.urandom((n + 7) // 8)\n    seq = int.from_bytes(ba, \"little\")\n    if n % 8 != 0:\n      seq >>= n % 8",
  "R-C20-WIDTH", "Urandom shifts by n % 8")
F("D40", "C20", RG, "      res[-1] &= (1 << (n % 8)) - 1", "      res[0] &= (1 << (n % 8)) - 1", "R-C20-WIDTH", "LcgNist masks the low byte")
F("D41", "C20", RG, "      ba[0] &= (1 << (n % 8)) - 1\n    return int.from_bytes(ba, \"big\")", "      ba[0] &= (1 << (n % 8)) - 1\n    return int.from_bytes(ba, \"little\")", "R-C20-WIDTH", "JavaRandom assembled little-endian")
F("D42", "C20", RG, "    else:\n      y = seed\n    ba = bytearray()\n    chunk_size", "    else:\n      y = seed ^ int.from_bytes(os.urandom(1), \"little\")\n    ba = bytearray()\n    chunk_size", "R-C20-PURE", "Mwc mixes entropy into a seeded run")
T("D43", "C20", RG, "    ba = bytearray().join(z.to_bytes(4, \"little\") for z in blocks)\n    res = int.from_bytes(ba, \"little\")\n    if n % 32 != 0:\n      res &= (1 << n) - 1",
  "    ba = bytearray().join(z.to_bytes(4, \"little\") for z in blocks)\n    res = int.from_bytes(ba, \"little\")\n    if n % 32 != 0:\n      res %= 1 << n", "Xorwow: mask written as modulo")
F("D43b", "C20", RG, "    for _ in range((n + 31) // 32):\n      s = state % 2**32", "    for _ in range((n + 31) // 32 + 1):\n      s = state % 2**32", "R-C20-WIDTH", "Xorwow produces one block too many when 32 | n")
F("D43c", "C20", RG, "    ba = rand.bytes((n + 7) // 8)\n    res = int.from_bytes(ba, \"little\")\n    if n % 8:\n      res &= (1 << n) - 1", "    ba = rand.bytes(n // 8 + 1)\n    res = int.from_bytes(ba, \"little\")\n    if n % 8:\n      res &= (1 << n) - 1",
  "R-C20-WIDTH", "NumpyRng draws an extra byte when 8 | n")
U("D43d", "C20", RG, "    if len(ba) * 8 != n:\n      res &= (1 << n) - 1\n    return res\n\n\nclass NumpyRng", "    if len(ba) * 8 < n:\n      res &= (1 << n) - 1\n    return res\n\n\nclass NumpyRng", "Mwc only masks when too short (length symbolic in output_bits: undecided, exit 2)")
F("D43e", "C20", RG, "    random.seed(seed)\n    return random.getrandbits(n)", "    return random.getrandbits(n)", "R-C20-PURE", "Mt19937 not seeded")
F("D43f", "C20", RG, "    a = 0x5DEECE66D\n", "    a = 0x5DEECE66B\n", "R-C20-CONST", "java multiplier typo")
F("D43g", "C20", RG, "      output = state >> 16\n", "      output = state >> 15\n", "R-C20-CONST", "java output shift")
F("D43h", "C20", RG, "    if seed is None:\n      seed = int.from_bytes(os.urandom(state_size_bytes), \"little\")\n\n    state = seed", "    seed = int.from_bytes(os.urandom(state_size_bytes), \"little\")\n\n    state = seed", "R-C20-PURE", "TruncLcg ignores the seed")
F("D43i", "C20", RG, "      output = state >> output_size_bits\n", "      output = state % 2**output_size_bits\n", "R-C20-CONST", "TruncLcg outputs the lower half")
F("D43j", "C20", RG, "    \"java\": JavaRandom(),\n", "    \"java\": Rng(),\n", "R-C20-REGISTRY", "registry holds the abstract base")
T("D43k", "C20", RG, "    if n % 8 != 0:\n      seq >>= -n % 8\n    return seq\n\n\nclass Shake128", "    seq >>= -n % 8\n    return seq\n\n\nclass Shake128", "Urandom: unconditional shift by -n % 8 (0 when 8 | n)")

# ---------------------------------------------------------------------------------- C12
NS = L + "randomness_tests/nist_suite.py"
XS = L + "randomness_tests/extended_nist_suite.py"
F("D29", "C12", NS, "[6272, 128, 4, 9, [0.1174, 0.2430, 0.2493, 0.1752, 0.1027, 0.1124]]", "[6272, 128, 4, 9, [0.1174, 0.2340, 0.2493, 0.1752, 0.1027, 0.1124]]", "R-C12-TABLES", "longest-run digit transposition")
F("D29b", "C12", NS, "[0.0882, 0.2092, 0.2483, 0.1933, 0.1208, 0.0675, 0.0727]", "[0.0882, 0.2092, 0.2483, 0.1933, 0.1208, 0.0657, 0.0727]", "R-C12-TABLES", "M=10^4 row: a *different* literal is not covered by the known finding")
F("D30", "C12", NS, "      7: 904960,\n", "      7: 904690,\n", "R-C12-TABLES", "Universal min_n typo")
F("D30b", "C12", NS, "      6: (5.2177052, 2.954),\n", "      6: (5.2177025, 2.954),\n", "R-C12-TABLES", "Universal mean typo")
F("D30c", "C12", NS, "          0.28878809, 0.57757619, 0.12835026, 0.00523879, 0.00004657, 0.00000010", "          0.28878809, 0.57757619, 0.12853026, 0.00523879, 0.00004657, 0.00000010", "R-C12-TABLES", "rank precomputed typo")
F("D30d", "C12", XS, "    1.0, 0.711212, 0.133636, 0.00528545,", "    1.0, 0.711212, 0.133663, 0.00528545,", "R-C12-TABLES", "asymptotic rank SF typo")
F("D30e", "C12", NS, "    pi = [1 / 96, 1 / 32, 1 / 8, 1 / 2, 1 / 4, 1 / 16, 1 / 48]\n  else:\n    pi = [1 / 48, 1 / 16, 1 / 4, 1 / 2, 1 / 8, 1 / 32, 1 / 96]",
  "    pi = [1 / 48, 1 / 16, 1 / 4, 1 / 2, 1 / 8, 1 / 32, 1 / 96]\n  else:\n    pi = [1 / 96, 1 / 32, 1 / 8, 1 / 2, 1 / 4, 1 / 16, 1 / 48]", "R-C12-TABLES", "linear complexity parity tables swapped")
F("D30f", "C12", NS, "    pi[k] = t**2 * (1 - t)**(k - 1)", "    pi[k] = t**2 * (1 - t)**k", "R-C12-TABLES", "random excursions exponent")
F("D31", "C12", NS, "  if n < 100:\n    raise InsufficientDataError(\"Not enough input\")", "  if n < 10:\n    raise InsufficientDataError(\"Not enough input\")", "R-C12-MINSIZE", "BlockFrequency minimum lowered")
F("D31b", "C12", NS, "    if n < 38 * r * c:", "    if n < 38 * r:", "R-C12-MINSIZE", "rank minimum misses a factor")
F("D31c", "C12", NS, "  if block_size * 200 > n:", "  if block_size * 20 > n:", "R-C12-MINSIZE", "linear complexity minimum blocks")
F("D31d", "C12", XS, "  if n < size * size:\n", "  if n < size:\n", "R-C12-MINSIZE", "large rank minimum")
F("D31e", "C12", NS, "  if n < min_n[6]:", "  if n < min_n[7]:", "R-C12-MINSIZE", "universal minimum is the L=7 bound")
F("D32", "C12", NS, "    maxs = max(0, max(total_cnt, default=0))", "    maxs = max(total_cnt, default=0)", "R-C12-CUSUM", "remove the clamp (fixed defect returns)")
F("D32b", "C12", NS, "    mins = min(0, min(total_cnt, default=0))", "    mins = min(total_cnt)", "R-C12-CUSUM", "remove the clamp on mins")
F("D32c", "C12", NS, "  for p in params[::-1]:\n    if n >= p[0]:", "  for p in params:\n    if n >= p[0]:", "R-C12-CONSIST", "ladder scanned from the smallest row")
F("D32d", "C12", NS, "      k = v_upper - v_lower\n", "      k = v_upper - v_lower + 1\n", "R-C12-CONSIST", "degrees of freedom off by one")
F("D32e", "C12", NS, "    v[min(k, r - rank)] += 1", "    v[min(k, rank)] += 1", "R-C12-CONSIST", "rank class indexed by rank instead of deficiency")
T("D32f", "C12", NS, "  if n < 100:\n    raise InsufficientDataError(\"Not enough input\")", "  if n <= 99:\n    raise InsufficientDataError(\"Not enough input\")", "n < 100 written as n <= 99")
T("D32g", "C12", NS, "    maxs = max(0, max(total_cnt, default=0))", "    maxs = max(max(total_cnt, default=0), 0)", "clamp arguments swapped")

# ---------------------------------------------------------------------------------- C11
EC = L + "ec_util.py"
F("B17", "C11", EC, "    x3 = (t * t - x1 - x2) % self.mod\n    y3 = (t * (x1 - x3) - y1) % self.mod\n    return (x3, y3)", "    x3 = (t * t - x1 - x2) % self.mod\n    y3 = (t * (x1 - x3) + y1) % self.mod\n    return (x3, y3)", "R-C11-FORMULA", "Add: y3 sign")
F("B18", "C11", EC, "    x3 = (r * r - hcube - 2 * t) % mod", "    x3 = (r * r - hcube - t) % mod", "R-C11-FORMULA", "AddJacobian: x3 misses a t")
F("B19", "C11", EC, "      m = 3 * (x + zsqr) * (x - zsqr) % mod", "      m = 3 * (x + zsqr) * (x + zsqr) % mod", "R-C11-FORMULA", "DoubleJacobian a=-3 shortcut")
F("B20", "C11", EC, "        t = v * (p[1] + q[1]) % self.mod\n        diffs[i]", "        t = v * (p[1] - q[1]) % self.mod\n        diffs[i]", "R-C11-FORMULA", "BatchAddSubtractX diff uses the sum slope")
F("B22", "C11", EC, "\"3617de4a96262c6f5d9e98bf9292dc29f8f41dbd289a147ce9da3113b5f0\"", "\"3617de4a96262c6f5d9e98bf9292dc29f8f41dbd289a147ce9da3113b5f1\"", "R-C11-CURVES", "secp384r1 gy digit")
T("B23", "C11", EC, "    h = u2 - u1 % mod\n", "    h = (u2 - u1) % mod\n", "AddJacobian parenthesised reduction")
T("B24", "C11", EC, "    inv = gmpy.invert(x1 - x2, self.mod)\n    t = (y1 - y2) * inv % self.mod", "    inv = gmpy.invert(x2 - x1, self.mod)\n    t = (y2 - y1) * inv % self.mod", "Add: mirrored slope")
F("B30", "C11", EC, "    num = (3 * x * x + self.a) % self.mod\n    den = 2 * y\n", "    num = (3 * x * x - self.a) % self.mod\n    den = 2 * y\n", "R-C11-FORMULA", "Double: -a")
F("B31", "C11", EC, "    return (x, -y % self.mod)", "    return (x, y % self.mod)", "R-C11-FORMULA", "Negate returns the point itself")
F("B32", "C11", EC, "    z2 = 2 * y * z % mod\n    return x2, y2, z2", "    z2 = y * z % mod\n    return x2, y2, z2", "R-C11-FORMULA", "DoubleJacobian z2")
F("B33", "C11", EC, "    wsqr = w * w % mod\n    wcube = wsqr * w % mod\n    x = x * wsqr % mod\n    y = y * wcube % mod", "    wsqr = w * w % mod\n    wcube = wsqr * w % mod\n    x = x * wsqr % mod\n    y = y * wsqr % mod", "R-C11-FORMULA", "JacobianToAffine y uses w^2")
F("B34", "C11", EC, "        tmp[i] = 2 * p[1]\n", "        tmp[i] = p[1]\n", "R-C11-FORMULA", "BatchDouble inverse of y instead of 2y")
F("B35", "C11", EC, "      if (y1 - y2) % self.mod == 0:\n        return self.Double(p)\n      else:\n        return INFINITY", "      if (y1 - y2) % self.mod == 0:\n        return INFINITY\n      else:\n        return self.Double(p)", "R-C11-DISPATCH", "Add: equal/opposite swapped")
F("B36", "C11", EC, "    if z == 0 or y == 0:\n      return INFINITY_JACOBIAN", "    if z == 0:\n      return INFINITY_JACOBIAN", "R-C11-DISPATCH", "DoubleJacobian: y = 0 not handled")
F("B37", "C11", EC, "      if p != INFINITY and q != INFINITY:\n        tmp[i] = (p[0] - q[0]) % self.mod", "      if p != INFINITY:\n        tmp[i] = (p[0] - q[0]) % self.mod", "R-C11-DISPATCH", "BatchAddList: inverse requested for infinite q")
F("B38", "C11", EC, "      if v:\n        res[i] = res[i] * inverse % mod\n        inverse = inverse * v % mod", "      if v is not None:\n        res[i] = res[i] * inverse % mod\n        inverse = inverse * v % mod", "R-C11-DISPATCH", "BatchInverse: passes skip different entries")
F("B39", "C11", EC, "        mod=2**256 - 2**32 - 977,\n        a=0,\n        b=7,", "        mod=2**256 - 2**32 - 977,\n        a=0,\n        b=5,", "R-C11-CURVES", "secp256k1 b")
F("B40", "C11", EC, "        name=\"secp224r1\",\n        mod=2**224 - 2**96 + 1,", "        name=\"secp224r1\",\n        mod=2**224 - 2**96 - 1,", "R-C11-CURVES", "secp224r1 modulus")
F("B41", "C11", EC, "    if u1 == u2:\n      if s1 != s2:\n        return INFINITY_JACOBIAN\n      else:\n        return self.DoubleJacobian(p)", "    if u1 == u2:\n      return self.DoubleJacobian(p)", "R-C11-DISPATCH", "AddJacobian: opposite points doubled")
T("B42", "C11", EC, "    ysqr = y * y % mod\n    zsqr = z * z % mod\n    s = 4 * x * ysqr % mod", "    ysqr = y * y\n    zsqr = z * z\n    s = 4 * x * ysqr", "DoubleJacobian: reductions removed (still congruent)")
T("B43", "C11", EC, "    if self.a == -3:\n      m = 3 * (x + zsqr) * (x - zsqr) % mod\n    else:\n      m = (3 * x * x + self.a * zsqr * zsqr) % mod", "    if self.a == -3:\n      m = (3 * x * x - 3 * zsqr * zsqr) % mod\n    else:\n      m = (3 * x * x + self.a * zsqr * zsqr) % mod", "a=-3 shortcut expanded")

# ---------------------------------------------------------------------------------- C09
UT = L + "util.py"
F("D07", "C09", EC, "    b = r * si % self.n\n", "    b = s * si % self.n\n", "R-C09-HNP", "b = s * si")
F("D07b", "C09", EC, "    si = gmpy.invert(s, self.n)\n", "    si = gmpy.invert(s, self.mod)\n", "R-C09-HNP", "inverse modulo the field prime")
F("D07c", "C09", EC, "    a = z * si % self.n\n    b = r * si % self.n\n    return (a, b)", "    a = z * si % self.n\n    b = r * si % self.n\n    return (b, a)", "R-C09-HNP", "pair swapped")
F("D08", "C09", EC, "    if shift > 0:\n      h >>= shift\n", "    if shift > 0:\n      h <<= shift\n", "R-C09-TRUNC", "shift left")
T("D08b", "C09", EC, "    if shift > 0:\n      h >>= shift\n", "    if shift >= 1:\n      h >>= shift\n", "shift >= 1")
F("D08c", "C09", EC, "    shift = hlen - self.n.bit_length()\n", "    shift = hlen - self.mod.bit_length()\n", "R-C09-TRUNC", "order length taken from the field")
F("D08d", "C09", EC, "    if shift > 0:\n      h >>= shift\n    return h % self.n", "    if shift > 8:\n      h >>= shift\n    return h % self.n", "R-C09-TRUNC", "no truncation for small excess")
F("D09", "C09", EC, "  z = curve.TransformOrderLen(h, len(sig.message_hash) * 8)", "  z = curve.TransformOrderLen(h, len(sig.message_hash) * 4)", "R-C09-FEED", "hash length in nibbles")
F("D09b", "C09", EC, "  r = gmpy.mpz(util.Bytes2Int(sig.r))\n  s = gmpy.mpz(util.Bytes2Int(sig.s))", "  r = gmpy.mpz(util.Bytes2Int(sig.s))\n  s = gmpy.mpz(util.Bytes2Int(sig.r))", "R-C09-FEED", "r and s swapped")
F("D10", "C09", UT, "  return int.to_bytes(int(int_val), (int_val.bit_length() + 7) // 8, 'big')", "  return int.to_bytes(int(int_val), (int_val.bit_length() + 7) // 8, 'little')", "R-C09-BYTES", "Int2Bytes little-endian")
F("D10b", "C09", UT, "  return int.from_bytes(bytes_val, 'big')", "  return int.from_bytes(bytes_val[1:], 'big')", "R-C09-BYTES", "Bytes2Int drops the first byte")
F("D10c", "C09", EC, "  x = gmpy.mpz(util.Bytes2Int(key.x))\n  y = gmpy.mpz(util.Bytes2Int(key.y))\n  return (x, y)", "  x = gmpy.mpz(util.Bytes2Int(key.x))\n  y = gmpy.mpz(util.Bytes2Int(key.y))\n  return (y, x)", "R-C09-BYTES", "PublicPoint swaps coordinates")
F("D10d", "C09", UT, "    return bytes.fromhex('0' + hexstr_val)", "    return bytes.fromhex(hexstr_val + '0')", "R-C09-BYTES", "odd hex padded on the right")
T("D10e", "C09", EC, "    si = gmpy.invert(s, self.n)\n    a = z * si % self.n\n    b = r * si % self.n\n    return (a, b)", "    inv_s = gmpy.invert(s, self.n)\n    return (z * inv_s % self.n, r * inv_s % self.n)", "HNP without temps")

# ---------------------------------------------------------------------------------- C02
ES = L + "ecdsa_sig_checks.py"
E1 = L + "ec_single_checks.py"
EA = L + "ec_aggregate_checks.py"
CR = L + "cr50_u2f_weakness.py"
F("B01", "C02", EC, "            if y[0] == p[0]:\n              if y[1] == p[1]:\n                res[i] = dl\n              elif y[1] == -p[1] % self.mod:\n                res[i] = -dl",
  "            if y[0] == p[0]:\n              res[i] = dl", "R-C02-RELEASE", "BatchDL: y-coordinate not verified")
F("B02", "C02", EC, "              if y[1] == p[1]:\n                res[i] = dl\n              elif y[1] == -p[1] % self.mod:\n                res[i] = -dl",
  "              if y[1] == p[1]:\n                res[i] = -dl\n              elif y[1] == -p[1] % self.mod:\n                res[i] = dl", "R-C02-RELEASE", "BatchDL: signs swapped")
F("B02b", "C02", EC, "            y = self.Multiply(base, dl)\n            if y[0] == p[0]:", "            y = self.Multiply(base, dl + 1)\n            if y[0] == p[0]:", "R-C02-RELEASE", "BatchDL verifies a different scalar")
T("B02c", "C02", EC, "      if p == INFINITY:\n        res[i] = 0\n        continue", "      if p[0] is None:\n        res[i] = 0\n        continue", "infinity tested through the x-coordinate (equivalent for well-formed points)")
F("B11", "C02", EC, "              res[i] = \"key - (%x, %x) = %d * G\" % (q[0], q[1], dl)", "              res[i] = \"key - (%x, %x) = %d * G\" % (q[0], q[1], -dl)", "R-C02-RELEASE", "relation with -dl")
F("B12", "C02", EC, "                res[key2] = \"key - (%x, %x) = %d * G\" % (p[0], p[1], -dl)\n      negated.append(self.Negate(p))",
  "                res[key2] = \"key - (%x, %x) = %d * G\" % (p[0], p[1], -dl)\n      if res[i] is None:\n        negated.append(self.Negate(p))", "R-C02-RELEASE", "negated extended conditionally (alignment lost)")
F("B12b", "C02", EC, "                key2 = j - len(other_points)\n", "                key2 = j - len(other_points) + 1\n", "R-C02-RELEASE", "mirrored index off by one")
F("B12c", "C02", EC, "            diff2 = self.Multiply(base, dl)\n            if diff == diff2:", "            diff2 = self.Multiply(base, dl)\n            if diff[0] == diff2[0]:", "R-C02-RELEASE", "difference verified on x only")
F("B08", "C02", EC, "        res[k % num_points] = int(dlog * multipliers[k // num_points])", "        res[k // num_points] = int(dlog * multipliers[k % num_points])", "R-C02-CODEC", "reader pair swapped")
F("B08b", "C02", EC, "        all_points[i + num_points * j] = self.Multiply(point, inverse)", "        all_points[j + len(multipliers) * i] = self.Multiply(point, inverse)", "R-C02-CODEC", "writer uses another stride")
F("B14", "C02", ES, "    if guess_pk in pks:\n      for idx in pks[guess_pk]:\n        issuer_dlogs[idx] = guesses[i]", "    for idx in pks.get(guess_pk, range(len(guesses))):\n      issuer_dlogs[idx] = guesses[i]", "R-C02-SANITISE", "membership test dropped")
F("B14b", "C02", ES, "        issuer_dlogs[idx] = guesses[i]", "        issuer_dlogs[idx] = guesses[i - 1]", "R-C02-SANITISE", "neighbouring guess recorded")
F("B15", "C02", ES, "        if i in issuer_dlogs:\n          dlog = format(int(issuer_dlogs[i]), \"x\")\n          logging.warning(\n              \"Check biased nonce %s failed.",
  "        if i in issuer_dlogs or guesses:\n          dlog = format(int(issuer_dlogs.get(i, 0)), \"x\")\n          logging.warning(\n              \"Check biased nonce %s failed.", "R-C02-SANITISE", "weak whenever any guess exists")
F("B16", "C02", CR, "    if x1 != x2:\n      raise ArithmeticError(\"Sanity check failed\")\n", "", "R-C02-U2F", "U2F cross-check removed")
F("B16b", "C02", E1, "      points = [ec_util.PublicPoint(key.ec_info) for key in keys]\n      discrete_logs = curve.ExtendedBatchDL(points)", "      points = [ec_util.PublicPoint(key.ec_info) for key in artifacts]\n      discrete_logs = curve.ExtendedBatchDL(points)", "R-C02-ALIGN", "points of the whole batch, results indexed by partition")
F("B16c", "C02", E1, "          util.AttachInfo(key.test_info, consts.INFO_NAME_DISCRETE_LOG,\n                          discrete_log)", "          util.AttachInfo(keys[i - 1].test_info, consts.INFO_NAME_DISCRETE_LOG,\n                          discrete_log)", "R-C02-ALIGN", "dlog recorded on the neighbour")
F("B16d", "C02", EA, "        if result[i] is not None:", "        if result[i - 1] is not None:", "R-C02-ALIGN", "tests the neighbour's entry")
T("B16e", "C02", EC, "            y = self.Multiply(base, dl)\n            if y[0] == p[0]:\n              if y[1] == p[1]:\n                res[i] = dl\n              elif y[1] == -p[1] % self.mod:\n                res[i] = -dl",
  "            cand = self.Multiply(base, dl)\n            if cand[0] == p[0] and cand[1] == p[1]:\n              res[i] = dl\n            elif cand[0] == p[0] and cand[1] == -p[1] % self.mod:\n              res[i] = -dl", "BatchDL verification with `and`")

# ---------------------------------------------------------------------------------- C10
F("B03", "C10", EC, "    giant_steps = 2 + n // t\n", "    giant_steps = 1 + n // t\n", "R-C10-COVER", "one giant step too few")
F("B04", "C10", EC, "    t = 2 * table_size - 1\n", "    t = 2 * table_size\n", "R-C10-COVER", "giant step 2T leaves a gap")
T("B05", "C10", EC, "    t = 2 * table_size - 1\n", "    t = 2 * table_size - 2\n", "smaller giant step still covers")
F("B05b", "C10", EC, "          for dl in [j * t + self._table[x], j * t - self._table[x]]:", "          for dl in [j * t + self._table[x]]:", "R-C10-COVER", "negative offsets not tried")
F("B06", ["C10"], EC, "    if table_size > self._table_size:\n      # TODO(pedroysb): An improvement would be to generate from\n      # self._table_size up to table_size.\n      self._table = self.PointTable(base, table_size)",
  "    if table_size < self._table_size:\n      # TODO(pedroysb): An improvement would be to generate from\n      # self._table_size up to table_size.\n      self._table = self.PointTable(base, table_size)", "R-C10-CACHE", "rebuild guard inverted")
F("B07", "C10", EC, "      self._table = self.PointTable(base, table_size)\n      self._table_size = table_size", "      self._table = self.PointTable(base, table_size)\n      self._table_size = 2 * table_size", "R-C10-CACHE", "descriptor larger than contents")
F("B07b", "C10", EC, "      self._table = self.PointTable(base, max_diff)\n      self._table_size = max_diff", "      self._table = self.PointTable(base, max_diff // 2)\n      self._table_size = max_diff", "R-C10-CACHE", "difference table too small for its descriptor")
F("B09", "C10", EC, "    for j in range(0, bits - 31, 8):\n      multipliers.append(2**j)", "    for j in range(0, bits - 31, 16):\n      multipliers.append(2**j)", "R-C10-FORMS", "byte shifts in steps of 16")
F("B09b", "C10", EC, "    for j in range(2, quad_words + 1):", "    for j in range(2, quad_words):", "R-C10-FORMS", "longest word repetition dropped")
F("B10", "C10", EC, "    discrete_logs = self.BatchDL(all_points, 2**32)", "    discrete_logs = self.BatchDL(all_points, 2**31)", "R-C10-FORMS", "search bound 2^31")
F("B13", "C10", EC, "    r = (n + m - 1) // m\n", "    r = n // m\n", "R-C10-TABLE", "table rows rounded down")
F("B13b", "C10", EC, "        res[x] = im + j\n", "        res[x] = im + j + 1\n", "R-C10-TABLE", "table index off by one")
F("B13c", "C10", EC, "    for i in range(1, n):\n      res[i] = self.AddJacobian(res[i - 1], base_jac)", "    for i in range(2, n):\n      res[i] = self.AddJacobian(res[i - 1], base_jac)", "R-C10-TABLE", "PointSequence skips index 1")
F("B13d", "C10", EC, "        if x is None:\n          continue  # key is a duplicate", "        if x is None or j == 0:\n          continue  # key is a duplicate", "R-C10-DUP", "first partner always skipped")
F("B13e", "C10", EC, "    if not points or len(points) + len(other_points) < 2:\n      return res", "    if not points or len(points) < 2:\n      return res", "R-C10-DUP", "single key never compared with history list")

# ---------------------------------------------------------------------------------- C19
SR = L + "small_roots.py"
F("D33", "C19", N, "    a = gmpy.f_mod_2exp(a * (2 - a * n), t)", "    a = gmpy.f_mod_2exp(a * (2 + a * n), t)", "R-C19-HENSEL", "Inverse2exp Newton step sign")
F("D33b", "C19", N, "    t = min(k, 2 * t)\n", "    t = min(k, 3 * t)\n", "R-C19-HENSEL", "Inverse2exp exponent grows too fast")
F("D33c", "C19", N, "  a = n % 4\n  t = 2\n", "  a = n % 4\n  t = 4\n", "R-C19-HENSEL", "Inverse2exp claims 4 valid bits at the start")
F("D34", "C19", N, "    t = min(k, 2 * t - 2)\n", "    t = min(k, 2 * t)\n", "R-C19-HENSEL", "InverseSqrt2exp exponent 2t")
F("D34b", "C19", N, "    a = gmpy.f_mod_2exp(a * (3 - a * a * n) // 2, t)", "    a = gmpy.f_mod_2exp(a * (3 - a * n) // 2, t)", "R-C19-HENSEL", "InverseSqrt2exp step uses a*n")
F("D34c", "C19", N, "  if n % 8 != 1:\n    return None\n  a = 1", "  if n % 4 != 1:\n    return None\n  a = 1", "R-C19-HENSEL", "solvability test weakened to n % 4")
F("D35", "C19", N, "      gmpy.f_mod_2exp((2 ** (k - 1) - r), k),", "      gmpy.f_mod_2exp((2 ** (k - 2) - r), k),", "R-C19-SQRT", "third root uses 2^(k-2)")
F("D35b", "C19", N, "  r = Inverse2exp(s, k)\n", "  r = Inverse2exp(s, k - 1)\n", "R-C19-SQRT", "root only valid modulo 2^(k-1)")
F("D36", "C19", N, "  return x, y - d", "  return x, y + d", "R-C19-DIVMOD", "remainder shifted the wrong way")
F("D36b", "C19", N, "  d = b // 2\n", "  d = b // 4\n", "R-C19-DIVMOD", "rounding offset quartered")
F("D36c", "C19", N, "  d = b // 2\n", "  d = (b + 1) // 2\n", "R-C19-DIVMOD", "re-introduce the odd-divisor rounding defect (fixed by 16e0547)")
T("D36d", "C19", N, "  d = b // 2\n", "  d = b >> 1\n", "offset written with a shift")
F("D37", "C19", SR, "    if y != 0 and n % y == 0:\n      return rx\n  return None", "    if y != 0 and n % y == 0:\n      pass\n    return rx\n  return None", "R-C19-ROOTS", "univariate root returned unverified")
F("D37b", "C19", SR, "    if int(f(*roots)) % n == 0:\n      return list(roots)", "    if int(f(*roots)) % n == 0 or True:\n      return list(roots)", "R-C19-ROOTS", "modn root always returned")
F("D37c", "C19", SR, "  y = int(f(*roots))\n  if y != 0 and n % y == 0:\n    return roots", "  y = int(f(*roots))\n  if n % max(y, 1) == 0:\n    return roots", "R-C19-ROOTS", "y = 0 accepted")
F("D37d", "C19", N, "    r, s = r * q + s, r\n", "    r, s = r * q - s, r\n", "R-C19-CF", "convergent recurrence sign")
F("D37e", "C19", N, "    a, b = b, rem\n    r, s = r * q + s, r\n    t, u = t * q + u, t\n    res.append((q, r, t))", "    res.append((q, r, t))\n    a, b = b, rem\n    r, s = r * q + s, r\n    t, u = t * q + u, t", "R-C19-CF", "convergent appended before the update")
T("D37f", "C19", N, "    t = min(k, 2 * t)\n    a = gmpy.f_mod_2exp(a * (2 - a * n), t)", "    t = min(k, 2 * t)\n    a = gmpy.f_mod_2exp(2 * a - a * a * n, t)", "Newton step expanded")
T("D37g", "C19", N, "    t = min(k, 2 * t - 2)\n", "    t = min(k, 2 * t - 3)\n", "slower exponent growth is still sound")

# ---------------------------------------------------------------------------------- C06
RO = L + "roca.py"
DS = L + "data/default_storage.py"
F("D01", "C06", RS, "      weak = gmpy.bit_length(n) < 2048\n", "      weak = gmpy.bit_length(n) <= 2048\n", "R-C06-PRED", "size check flags 2048-bit keys")
F("D02", "C06", RS, "      if e != 65537:\n", "      if e != 65539:\n", "R-C06-PRED", "exponent constant")
F("D02b", "C06", RS, "      e = gmpy.mpz(util.Bytes2Int(key.rsa_info.e))\n", "      e = gmpy.mpz(util.Bytes2Int(key.rsa_info.n))\n", "R-C06-PRED", "exponent check reads the modulus")
F("D03", "C06", RO, "            149, 151, 157, 163, 167, 173)\n  F4", "            149, 151, 157, 163, 167)\n  F4", "R-C06-TABLES", "ROCA prime 173 dropped")
F("D03b", "C06", RO, "            223, 227, 229)", "            223, 227, 233)", "R-C06-TABLES", "variant prime 229 -> 233")
F("D04", "C06", RO, "    for unused_exponent in range(1, n):", "    for unused_exponent in range(2, n):", "R-C06-DLOG-LOOP", "one group element never tested")
F("D04b", "C06", RO, "      if accumulator == value:\n        return True\n      accumulator = (accumulator * b) % n", "      accumulator = (accumulator * b) % n\n      if accumulator == value:\n        return True", "R-C06-DLOG-LOOP", "multiply before compare (value 1 missed)")
F("D05", "C06", RS, "hexdigest()[20:]", "hexdigest()[:20]", "R-C06-DENY-FORMAT", "first half of the digest")
T("D05b", "C06", RS, "hexdigest()[20:]", "hexdigest()[-20:]", "last 20 digits written as [-20:]")
F("D06", "C06", RS, "      keystr = \"%s:%s\" % (keytype, n_hash)", "      keystr = \"%s-%s\" % (keytype, n_hash)", "R-C06-DENY-FORMAT", "separator changed on one side")
F("D06b", "C06", RS, "      n_str = \"Modulus=%X\\n\" % n", "      n_str = \"Modulus=%x\\n\" % n", "R-C06-DENY-FORMAT", "lower-case hex in the hashed text")
F("D06c", "C06", DS, "        if re.match(r\"^[0-9a-f]{20}$\", line):", "        if re.match(r\"^[0-9a-f]{40}$\", line):", "R-C06-DENY-FORMAT", "storage expects 40 digits")
F("B27", "C06", E1, "      if curve.n.bit_length() < minimal_bit_length:", "      if curve.n.bit_length() <= minimal_bit_length:", "R-C06-PRED", "224-bit curves flagged")
F("B28", "C06", EC, "    if x < 0 or x > (self.mod - 1) or y < 0 or y > (self.mod - 1):", "    if x < 0 or x > self.mod or y < 0 or y > (self.mod - 1):", "R-C06-PRED", "x = p accepted")
T("B29", "C06", EC, "    if x < 0 or x > (self.mod - 1) or y < 0 or y > (self.mod - 1):", "    if x < 0 or x >= self.mod or y < 0 or y >= self.mod:", "range written with >=")
F("B29b", "C06", EC, "    if self.h > 1:\n      q = self.Multiply(p, self.n)", "    if self.h > 2:\n      q = self.Multiply(p, self.n)", "R-C06-PRED", "cofactor-2 curves skip the subgroup test")
F("B29c", "C06", EC, "      return 0 == ((x * x + self.a) * x + self.b - y * y) % self.mod", "      return 0 == ((x * x + self.a) * x - self.b - y * y) % self.mod", "R-C06-PRED", "curve equation sign")
F("B29d", "C06", E1, "        if not curve.IsValidPublicKey(ec_util.PublicPoint(key.ec_info)):", "        if curve.IsValidPublicKey(ec_util.PublicPoint(key.ec_info)):", "R-C06-PRED", "validity inverted")
F("B29e", "C06", RO, "    if self.roca_key_detector.IsWeak(modulus):\n      return False\n    return True", "    return True", "R-C06-PRED", "ROCA keys not excluded from the variant")
F("B29f", "C06", RO, "      if not self._HasDiscreteLog(mod_p, self.F4, prime):\n        return False\n    return True", "      if not self._HasDiscreteLog(mod_p, self.F4, prime):\n        continue\n      return True\n    return False", "R-C06-PRED", "exists instead of for-all")
F("B29g", "C06", RS, "      n_msb = n >> (n.bit_length() - 64)", "      n_msb = n >> (n.bit_length() - 32)", "R-C06-KEYPAIR", "table key 32 bits")
F("B29h", "C06", RS, "        p, q = keypair_generator.Generator(seed).generate_key(n.bit_length())", "        p, q = keypair_generator.Generator(seed).generate_key(2048)", "R-C06-KEYPAIR", "regeneration with a fixed size")
F("B29i", "C06", EC, "    paranoid_pb2.CurveType.CURVE_SECT571R1: None,\n", "", "R-C06-ENUM", "a curve id missing from the factory")

# ---------------------------------------------------------------------------------- C13
TS = L + "randomness_tests/random_test_suite.py"
RU2 = L + "randomness_tests/util.py"
F("D24", "C13", TS, "      if pval < self.p_value_fail:", "      if pval <= self.p_value_fail:", "R-C13-STATE", "fails on ties with the fail level")
F("D25", "C13", TS, "        if repeat_prob < pval:", "        if repeat_prob > pval:", "R-C13-STATE", "PASSED/UNDECIDED swapped")
F("D26", "C13", TS, "    self.finished = undecided == 0 and self.runs >= self.min_repetitions", "    self.finished = undecided == 0 or self.runs >= self.min_repetitions", "R-C13-STATE", "finished with undecided sub-tests")
F("D26b", "C13", TS, "        repeat_prob = util.CombinedPValue([self.p_value_repeat] * len(pvals))", "        repeat_prob = util.CombinedPValue([self.p_value_repeat] * self.runs)", "R-C13-STATE", "repeat level combined over the wrong count")
F("D26c", "C13", TS, "      pvals.append(p_value)\n      pval = util.CombinedPValue(pvals)", "      pval = util.CombinedPValue(pvals)\n      pvals.append(p_value)", "R-C13-STATE", "combined before the new value is appended")
F("D26d", "C13", TS, "          self.state[name] = State.UNDECIDED\n          undecided += 1", "          self.state[name] = State.UNDECIDED", "R-C13-STATE", "undecided never counted: suite stops early")
F("D26e", "C13", TS, "      self.finished = True\n      return True", "      self.finished = False\n      return False", "R-C13-STATE", "insufficient data keeps the suite looping")
F("D27", "C13", TS, "  LogTotal(tests)\n  if log_level >= 1:\n    logging.info(\"total time: %4.2fs\", time.time() - start_total)\n  return any(test.Failed() for test in tests)\n\n\ndef TestBitString",
  "  LogTotal(tests)\n  if log_level >= 1:\n    logging.info(\"total time: %4.2fs\", time.time() - start_total)\n  return all(test.Failed() for test in tests)\n\n\ndef TestBitString", "R-C13-ENTRY", "TestSource returns all()")
F("D27b", "C13", TS, "    return any(state == State.FAILED for state in self.state.values())", "    return any(state != State.PASSED for state in self.state.values())", "R-C13-ENTRY", "undecided counted as failed")
F("D27c", "C13", TS, "TESTS = NIST_TESTS + EXTENDED_NIST_TESTS + LATTICE_TESTS", "TESTS = NIST_TESTS + EXTENDED_NIST_TESTS", "R-C13-ENTRY", "lattice tests dropped from the suite")
F("D27d", "C13", TS, "    (nist_suite.Serial, []),\n", "", "R-C13-ENTRY", "Serial test unregistered")
F("D27e", "C13", TS, "          TestStructure(test, params, significance_level, significance_level))", "          TestStructure(test, params, significance_level, 0.01))", "R-C13-ENTRY", "TestBitString with a different repeat level")
F("D27f", "C13", RU2, "  elif min(pvalues) == 0:\n    return 0\n", "", "R-C13-FISHER", "zero shortcut removed")
F("D27g", "C13", RU2, "    return Igamc(len(pvalues), s)", "    return Igamc(len(pvalues) - 1, s)", "R-C13-FISHER", "wrong shape parameter")
T("D28", "C13", TS, "      if pval < self.p_value_fail:\n        self.state[name] = State.FAILED\n      else:\n        repeat_prob = util.CombinedPValue([self.p_value_repeat] * len(pvals))\n        if repeat_prob < pval:\n          self.state[name] = State.PASSED\n        else:\n          self.state[name] = State.UNDECIDED\n          undecided += 1",
  "      if not (pval < self.p_value_fail):\n        repeat_prob = util.CombinedPValue([self.p_value_repeat] * len(pvals))\n        if pval > repeat_prob:\n          self.state[name] = State.PASSED\n        else:\n          self.state[name] = State.UNDECIDED\n          undecided += 1\n      else:\n        self.state[name] = State.FAILED",
  "branches flipped, comparison mirrored")

# ---------------------------------------------------------------------------------- C14
BM = L + "randomness_tests/berlekamp_massey.py"
BC = L + "randomness_tests/cc_util/berlekamp_massey.cc"
BP = L + "randomness_tests/cc_util/pybind/berlekamp_massey.cc"
F("G01", "C14", BM, "    return int(2 * 4**(m - 1))", "    return int(4**(m - 1))", "R-C14-CLOSED", "count for small m halved")
F("G02", "C14", BM, "    return int(4**(n - m))", "    return int(2 * 4**(n - m))", "R-C14-CLOSED", "count for large m doubled")
F("G03", "C14", BM, "  elif m <= n // 2:\n    # Result is always an int since m >= 1", "  elif m <= n // 2 + 1:\n    # Result is always an int since m >= 1", "R-C14-CLOSED", "split point moved up (m = n//2 + 1 uses the wrong branch)")
T("G03b", "C14", BM, "  elif m <= n // 2:\n    # Result is always an int since m >= 1", "  elif 2 * m <= n:\n    # Result is always an int since m >= 1", "split written as 2m <= n")
F("G04", "C14", BM, "  if m < 0 or n <= 0 or m > n:\n    return 0", "  if m < 0 or n <= 0 or m >= n:\n    return 0", "R-C14-CLOSED", "m = n reported impossible")
F("G05", "C14", BM, "    return 2 * m - n - 1", "    return 2 * m - n", "R-C14-CLOSED", "log-probability off by one")
F("G06", "C14", BM, "  if m == 0:\n    return -n", "  if m == 0:\n    return -n + 1", "R-C14-CLOSED", "log-probability of the zero sequence")
F("G07", "C14", BM, "  ba = s.to_bytes(size, \"little\")", "  ba = s.to_bytes(size, \"big\")", "R-C14-PACK", "python side big-endian")
F("G08", "C14", BM, "  return berlekamp_massey.LfsrLength(ba, length)", "  return berlekamp_massey.LfsrLength(ba, size)", "R-C14-PACK", "length passed in bytes")
F("G09", "C14", BC, "    s[i / 8] ^= byte << (8 * (i & 7));", "    s[i / 8] ^= byte << (8 * (7 - (i & 7)));", "R-C14-PACK", "C++ side big-endian words")
F("G10", "C14", BC, "  if (n < 0 || (size_t)n > 8 * seq.size()) {", "  if (n < 0) {", "R-C14-PACK", "upper range check removed")
F("G11", "C14", BP, "m.def(\"LfsrLength\", LfsrLengthStr);", "m.def(\"LfsrLen\", LfsrLengthStr);", "R-C14-PACK", "exported name changed")
T("G12", "C14", BM, "    return int(2 * 4**(m - 1))", "    return int(2 ** (2 * m - 1))", "closed form written as 2^(2m-1)")
T("G13", "C14", BM, "  size = (length + 7) // 8\n  if not 0 <= size < 2**31:", "  size = (length + 7) // 8\n  if size < 0 or size >= 2**31:", "range guard rewritten")

# ---------------------------------------------------------------------------------- C17
T("A28", "C17", RS, "      msb_1 = 2 ** (psize - 1)\n      msb_11 = msb_1 | 2 ** (psize - 2)\n      factors = None\n      for p_0 in list_unseeded_rands:",
  "      msb_1 = 2 ** (psize - 1)\n      msb_11 = msb_1 | 2 ** (psize - 2)\n      for p_0 in list_unseeded_rands:", "CheckUnseededRand: `factors = None` removed - the inner loop (non-empty set) always assigns it before it is read")
T("A28b", "C17", RS, "    any_weak = False\n    for key in artifacts:\n      n = gmpy.mpz(util.Bytes2Int(key.rsa_info.n))\n      psize = (n.bit_length() + 1) // 2",
  "    any_weak = False\n    factors = None\n    for key in artifacts:\n      n = gmpy.mpz(util.Bytes2Int(key.rsa_info.n))\n      psize = (n.bit_length() + 1) // 2", "extra initialisation before the loop (still reset per key)")
F("A28c", "C17", RS, "      max_dsize = n.bit_length() // 8\n      # bit size of the words that are swapped", "      max_dsize = max(n.bit_length() // 8, max_dsize if 'max_dsize' in dir() else 0)\n      # bit size of the words that are swapped", "R-C17-INDIVIDUAL", "permuted patterns: size cut-off grows with the largest key seen so far in the batch")
F("D20", "C17", RS, "      n = gmpy.mpz(util.Bytes2Int(key.rsa_info.n))\n      weak = gmpy.bit_length(n) < 2048", "      n = gmpy.mpz(util.Bytes2Int(key.rsa_info.n))\n      self._last = n\n      weak = gmpy.bit_length(n) < 2048", "R-C17-STATELESS", "check instance remembers the last modulus")
F("D20b", "C17", EC, "    scalars = [x % self.n for x in scalars]\n", "    scalars = [x % self.n for x in scalars]\n    self.n = self.n\n", "R-C17-STATELESS", "curve object mutated in a search routine")
F("D20c", "C17", RS, "    any_weak = False\n    pattern_sizes = self._pattern_sizes\n    if pattern_sizes is None:", "    any_weak = False\n    pattern_sizes = self._pattern_sizes\n    self._pattern_sizes = pattern_sizes\n    if pattern_sizes is None:", "R-C17-STATELESS", "CheckBitPatterns writes its configuration")
F("D20d", "C17", EC, "        if multiplier not in self._cache:\n          self._cache[multiplier] = self.Multiply(self.g, multiplier)", "        if multiplier not in self._cache:\n          self._cache[multiplier] = self.Multiply(self.g, s)", "R-C17-CACHE", "memo filled with the multiple of another scalar")
F("D20e", "C17", L + "ecdsa_sig_checks.py", "      pks = _MapIssuerSigIndexes(sigs)\n      guesses = set()\n      for _, idxs in pks.items():\n        # Exclude duplicate signatures from the actual processing\n        unique_vals = list({\n            ec_util.ECDSAValues(sigs[idx].ecdsa_sig_info, curve) for idx in idxs\n        })\n        a, b",
  "      pks = _MapIssuerSigIndexes(sigs)\n      guesses = set()\n      ec_util.CURVE_FACTORY[curve_id] = curve\n      for _, idxs in pks.items():\n        # Exclude duplicate signatures from the actual processing\n        unique_vals = list({\n            ec_util.ECDSAValues(sigs[idx].ecdsa_sig_info, curve) for idx in idxs\n        })\n        a, b",
  "R-C17-STATELESS", "shared curve table written at run time")
F("D20f", "C17", RS, "      max_pattern_size = n.bit_length() // 8\n      for pattern_size in pattern_sizes:", "      max_pattern_size = n.bit_length() // 8\n      pattern_sizes = pattern_sizes[1:] + pattern_sizes[:1]\n      for pattern_size in pattern_sizes:", "R-C17-INDIVIDUAL", "pattern list rotated per key: order depends on the position in the batch")

# ---------------------------------------------------------------------------------- C05 / C07 / C08
HN = L + "hidden_number_problem.py"
LC = L + "lcg_constants.py"
F("D46", "C05", RS, "      pattern_sizes += [31, 63, 127, 255, 511]", "      pattern_sizes += [63, 127, 255, 511]", "R-C05-SIZES", "31 dropped from the default list")
F("D47", "C05", RS, "        if pattern_size > max_pattern_size:\n          continue", "        if pattern_size > max_pattern_size:\n          break", "R-C05-CUT", "continue -> break on oversize pattern (list unordered)")
F("D47b", "C05", RS, "      max_pattern_size = n.bit_length() // 8\n", "      max_pattern_size = n.bit_length() // 32\n", "R-C05-CUT", "pattern cut-off tightened to 1/32")
F("D47c", "C05", RS, "      for wsize in 8, 16, 32, 64:", "      for wsize in 8, 16, 32:", "R-C05-CUT", "64-bit limbs dropped")
F("D47d", "C05", RS, "          d = int((2**psize - 1) * (2 ** (psize * wsize) + 1) // (2**wsize + 1))", "          d = int((2**psize - 1) * (2 ** (psize * wsize) - 1) // (2**wsize + 1))", "R-C05-DENOM", "permuted denominator sign")
F("D47e", "C05", RS, "        d = 2**pattern_size - 1\n", "        d = 2**pattern_size + 1\n", "R-C05-DENOM", "bit pattern denominator 2^w + 1")
F("D47f", "C05", RS, "      powersmooth = 2**64  # max power of a prime factor from p - 1", "      powersmooth = 2**32  # max power of a prime factor from p - 1", "R-C05-PM1", "powersmooth bound halved (bits)")
F("D47g", "C05", RU, "    if p == n:\n      return True, []", "    if p == n:\n      return False, []", "R-C05-PM1", "both-smooth case no longer flagged")
F("D47h", "C05", RU, "  threshold_weak = n.bit_length() - 12", "  threshold_weak = n.bit_length() - 40", "R-C05-HW", "Hamming-weight threshold far stricter (misses documented region)")
T("D47i", "C05", RS, "      max_pattern_size = n.bit_length() // 8\n", "      max_pattern_size = n.bit_length() // 10\n", "cut-off 1/10 still covers the stated 1/16")
F("D44", "C07", RS, "  def __init__(self, bound: Optional[int] = 2**48):", "  def __init__(self, bound: Optional[int] = 2**40):", "R-C07-BOUNDS", "continued-fraction bound loosened")
T("D45", "C07", RS, "  def __init__(self, bound: Optional[int] = 2**48):", "  def __init__(self, bound: Optional[int] = 2**49):", "stricter bound is fine (one-sided)")
F("D45b", "C07", RU, "    n: int, m: Optional[int] = None, gcd_bound: int = 2**60", "    n: int, m: Optional[int] = None, gcd_bound: int = 2**30", "R-C07-BOUNDS", "Pollard gate loosened")
F("D45c", "C07", RU, "  threshold_weak = n.bit_length() - 12", "  threshold_weak = n.bit_length() - 2", "R-C07-BOUNDS", "Hamming-weight threshold loosened")
F("D45d", "C07", RU, "    if quot >= bound:\n", "    if quot >= bound // 2**20:\n", "R-C07-BOUNDS", "coefficient alarm far below the bound")
F("D45e", "C07", RS, "      if factors:\n        logging.warning(\"Key factored! Factors: %s\\n%s\", factors, key.rsa_info)\n        util.AttachFactors(key.test_info, consts.INFO_NAME_N_FACTORS, factors)\n        any_weak = True\n        test_result.result = True\n      util.SetTestResult(key.test_info, test_result)\n    return any_weak\n\n\nclass CheckHighAndLowBitsEqual",
  "      if factors:\n        logging.warning(\"Key factored! Factors: %s\\n%s\", factors, key.rsa_info)\n        util.AttachFactors(key.test_info, consts.INFO_NAME_N_FACTORS, factors)\n        any_weak = True\n        test_result.result = True\n      elif n % 3 == 0:\n        any_weak = True\n        test_result.result = True\n      util.SetTestResult(key.test_info, test_result)\n    return any_weak\n\n\nclass CheckHighAndLowBitsEqual",
  "R-C07-EXACT", "CheckFermat accuses without a certificate")
F("D48", "C08", ES, "                  hnp.HiddenNumberProblem(a[i:i + size], b[i:i + size], None,", "                  hnp.HiddenNumberProblem(a[i:i + size], b[i:i + size - 1], None,", "R-C08-WINDOW", "b window one short")
F("D48b", "C08", ES, "          for size in (24, 48, 120):", "          for size in (24, 48):", "R-C08-WINDOW", "largest window dropped")
F("D48c", "C08", ES, "            if len(a) <= size:\n              # Tests with a larger window are not leading to additional tests.\n              break", "            if len(a) >= size:\n              # Tests with a larger window are not leading to additional tests.\n              break", "R-C08-WINDOW", "break condition inverted: larger windows never tried")
F("D49", "C08", LC, "    'sample_size':\n        24,\n    'min_signatures':\n        2,\n    'sliding_window_size':\n        2,\n    'bias':\n        14,", "    'sample_size':\n        40,\n    'min_signatures':\n        2,\n    'sliding_window_size':\n        2,\n    'bias':\n        14,", "R-C08-LCG-TABLE", "sample size raised beyond the shipped constants")
F("D49b", "C08", HN, "  DEFAULT = SINGLE | SLIDING | INCLUDE_KEY", "  DEFAULT = SINGLE | SLIDING", "R-C08-SUBSETS", "key inclusion dropped from DEFAULT")
F("D49c", "C08", ES, "      sigs = [s for s in artifacts if s.issuer_key_info.curve_type == curve_id]\n      if not sigs:\n        continue\n      pks = _MapIssuerSigIndexes(sigs)\n      guesses = set()\n      for _, idxs in pks.items():\n        # Exclude duplicate signatures from the actual processing\n        unique_vals = list({\n            ec_util.ECDSAValues(sigs[idx].ecdsa_sig_info, curve) for idx in idxs\n        })\n        a, b",
  "      sigs = [s for s in artifacts if s.issuer_key_info.curve_type == curve_id]\n      if not sigs:\n        continue\n      pks = _MapIssuerSigIndexes(sigs)\n      guesses = set()\n      for _, idxs in pks.items():\n        # Exclude duplicate signatures from the actual processing\n        unique_vals = list({\n            ec_util.ECDSAValues(sigs[idx].ecdsa_sig_info, curve) for idx in range(len(sigs))\n        })\n        a, b",
  "R-C08-GROUP", "every issuer gets the signatures of all issuers")
F("D49d", "C08", CR, "  basis = [0x1010101 << j for j in range(0, n.bit_length(), 32)]", "  basis = [0x1010101 << j for j in range(0, n.bit_length(), 64)]", "R-C08-U2F", "every second limb missing from the basis")
F("D49e", "C08", ES, "        for i in range(len(unique_vals) - 1):\n          r1, s1, z1 = unique_vals[i]\n          r2, s2, z2 = unique_vals[i + 1]", "        for i in range(0, len(unique_vals) - 1, 2):\n          r1, s1, z1 = unique_vals[i]\n          r2, s2, z2 = unique_vals[i + 1]", "R-C08-U2F", "pairs no longer slide (half of the adjacent pairs skipped)")

# ---------------------------------------------------------------------------------- C12 formulas / C06 keygen / C18 window (added after the seeded round)
KG = L + "keypair_generator.py"
F("H01", "C12", NS, "  s_obs = abs(s) / math.sqrt(n)\n", "  s_obs = abs(s) / math.sqrt(2 * n)\n", "R-C12-FORMULA", "Frequency normalisation")
F("H02", "C12", NS, "  p_value = math.erfc(abs(v_obs - 2 * n * pp) / (2 * math.sqrt(2 * n) * pp))", "  p_value = math.erfc(abs(v_obs - 2 * n * pp) / (2 * math.sqrt(n) * pp))", "R-C12-FORMULA", "Runs denominator")
F("H03", "C12", NS, "  chi_square = sum((c - n * p)**2 / (n * p) for c, p in zip(count, prob))", "  chi_square = sum((c - n * p)**2 / n for c, p in zip(count, prob))", "R-C12-FORMULA", "chi-square not divided by p")
F("H04", "C12", NS, "    k = len(count) - 1\n", "    k = len(count)\n", "R-C12-FORMULA", "chi-square default degrees of freedom")
F("H05", "C12", NS, "  variance = n * (1 / 2**m - (2 * m - 1) / 2**(2 * m))", "  variance = n * (1 / 2**m - (2 * m + 1) / 2**(2 * m))", "R-C12-FORMULA", "template variance")
F("H06", "C12", NS, "    p_value2 = util.Igamc(2**(m - 3), max(0.0, d2_psi) / 2)", "    p_value2 = util.Igamc(2**(m - 2), max(0.0, d2_psi) / 2)", "R-C12-FORMULA", "Serial second p-value shape parameter")
F("H07", "C12", NS, "    res += math.erf((4 * k - 1) * t)\n    res -= math.erf((4 * k + 1) * t)", "    res += math.erf((4 * k - 1) * t)\n    res -= math.erf((4 * k + 3) * t)", "R-C12-FORMULA", "cusum first series term")
F("H08", "C12", NS, "  k = math.ceil(mink)\n  res = 0.0\n  while k <= maxk:", "  k = math.ceil(mink)\n  res = 0.0\n  while k < maxk:", "R-C12-FORMULA", "cusum series drops the last term")
T("H09", "C12", NS, "  s_obs = abs(s) / math.sqrt(n)\n  p_value = math.erfc(s_obs / math.sqrt(2))", "  p_value = math.erfc(abs(s) / math.sqrt(n) / math.sqrt(2))", "Frequency: temp inlined")
T("H10", "C12", NS, "  pp = pi * (1 - pi)\n  p_value = math.erfc(abs(v_obs - 2 * n * pp) / (2 * math.sqrt(2 * n) * pp))", "  p_value = math.erfc(abs(v_obs - 2 * n * pi * (1 - pi)) / (2 * math.sqrt(2 * n) * pi * (1 - pi)))", "Runs: temp inlined")
F("H11", "C12", NS, "  c = (0.7 - 0.8 / block_size + (4 + 32 / block_size) *", "  c = (0.7 - 0.8 / block_size + (4 + 16 / block_size) *", "R-C12-FORMULA", "universal correction constant")
F("H12", "C06", KG, "      if q > p:\n        p, q = q, p\n      n = p * q", "      n = p * q", "R-C06-KEYGEN", "generator no longer keeps the larger prime")
F("H13", "C06", KG, "GCD_30_DELTA = [6, 4, 2, 4, 2, 4, 6, 2]", "GCD_30_DELTA = [6, 4, 2, 4, 2, 4, 2, 6]", "R-C06-KEYGEN", "wheel table permuted")
F("H14", "C06", KG, "      prime_bytes = prime_bytes[1 : p_size_bytes + 1]", "      prime_bytes = prime_bytes[:p_size_bytes]", "R-C06-KEYGEN", "byte window shifted")
F("H15", "C18", ES, "            for i in range(0, len(a), size):", "            for i in range(0, len(a) + 1, size):", "R-C18-WINDOW", "empty trailing window when size divides len(a)")

# ---------------------------------------------------------------------------------- constructions (C04 Lehman, C05 lattice/quadratic)
F("J01", "C04", SC, "      d = 4 * u * v * n\n", "      d = 2 * u * v * n\n", "R-C04-LEHMAN", "Fermat step on 2uvn")
F("J02", "C04", SC, "      if a * a < d:\n        a += 1\n", "", "R-C04-LEHMAN", "a = floor(sqrt d) (a^2 - d negative)")
F("J03", "C04", SC, "  q_0 = n // p_0\n", "  q_0 = n // (p_0 + 1)\n", "R-C04-LEHMAN", "q_0 not the cofactor guess")
F("J04", "C04", SC, "        g = gmpy.gcd(a + b, n)", "        g = gmpy.gcd(a * b, n)", "R-C04-LEHMAN", "gcd of the wrong combination")
T("J05", "C04", SC, "      if a * a < d:\n        a += 1\n", "      if a * a != d:\n        a += 1\n", "isqrt(d)^2 != d is the same test as < d")
F("J06", "C05", RU, "  lat = [[x, 0, u * d0 % w], [0, x, v * d0 % w], [0, 0, w]]", "  lat = [[x, 0, u * d0 % w], [0, x, v % w], [0, 0, w]]", "R-C05-CONSTRUCT", "lattice row without the denominator")
F("J07", "C05", RU, "    if a and c and gmpy.is_square(b * b - 4 * a * c):\n      t = gmpy.isqrt(b * b - 4 * a * c)", "    if a and c and gmpy.is_square(b * b - 2 * a * c):\n      t = gmpy.isqrt(b * b - 2 * a * c)", "R-C05-CONSTRUCT", "wrong discriminant")
F("J08", "C05", RU, "      for rt in (t, -t):\n", "      for rt in (t,):\n", "R-C05-CONSTRUCT", "only one root tried")
F("J09", "C05", RU, "  x = 2 ** (n.bit_length() // 2)\n  for quot, _, v in cf:", "  x = 2 ** (n.bit_length() // 2 - 1)\n  for quot, _, v in cf:", "R-C05-CONSTRUCT", "split point of the quadratic moved")

# ---------------------------------------------------------------------------------- C11 scalar-multiplication invariant (round 2)
F("K01", "C11", EC, "      if r:\n        res = self.AddJacobian(res, pj)\n      pj = self.DoubleJacobian(pj)", "      pj = self.DoubleJacobian(pj)\n      if r:\n        res = self.AddJacobian(res, pj)",
  "R-C11-SCALAR", "Multiply: doubles before adding")
F("K02", "C11", EC, "    if n == 1:\n      return p\n    res = INFINITY_JACOBIAN", "    if n <= 2:\n      return p\n    res = INFINITY_JACOBIAN", "R-C11-SCALAR", "Multiply: shortcut for n <= 2 returns p")
F("K03", "C11", EC, "      p = self.Negate(p)\n      n = -n\n    res = INFINITY\n", "      n = -n\n    res = INFINITY\n", "R-C11-SCALAR", "MultiplyAffine: negative scalar not negated")
F("K04", "C11", EC, "    res = INFINITY\n    # Loop invariant: The expected result is res + p * n\n    while n:", "    res = INFINITY\n    # Loop invariant: The expected result is res + p * n\n    while n > 1:",
  "R-C11-SCALAR", "MultiplyAffine: loop stops one bit early")
F("K05", "C11", EC, "    res = INFINITY\n    # Loop invariant", "    res = p\n    # Loop invariant", "R-C11-SCALAR", "MultiplyAffine: accumulator starts at p")
T("K06", "C11", EC, "      n, r = divmod(n, 2)\n      if r:\n        res = self.Add(res, p)", "      r = n % 2\n      n = n // 2\n      if r == 1:\n        res = self.Add(p, res)",
  "MultiplyAffine: divmod split into % and //, operands commuted")
F("K10", "C11", EC, "    scalars = [x % self.n for x in scalars]", "    scalars = [x if x < self.n else x % self.n for x in scalars]", "R-C11-COMB", "comb: negative scalars not reduced (seed r2)")
T("K11", "C11", EC, "    scalars = [x % self.n for x in scalars]", "    scalars = [x if 0 <= x < self.n else x % self.n for x in scalars]", "comb: reduction skipped only for canonical scalars")
F("K12", "C11", EC, "    scalars = [x % self.n for x in scalars]\n", "    scalars = list(scalars)\n", "R-C11-COMB", "comb: no reduction")
F("K13", "C11", EC, "    mask = sum(1 << j for j in range(0, self.n.bit_length(), steps))", "    mask = sum(1 << j for j in range(0, self.n.bit_length(), window_size))", "R-C11-COMB", "comb: teeth spaced by window size")
F("K14", "C11", EC, "    for i in range(steps - 1, -1, -1):\n      points = [(None, None)] * size", "    for i in range(steps - 1, 0, -1):\n      points = [(None, None)] * size", "R-C11-COMB", "comb: offset 0 never processed")
F("K15", "C11", EC, "        res = self.BatchDouble(res)\n        res = self.BatchAddList(res, points)", "        res = self.BatchAddList(res, points)\n        res = self.BatchDouble(res)", "R-C11-COMB", "comb: add before double")
F("K16", "C11", EC, "        multiplier = (s >> i) & mask", "        multiplier = (s >> (i + 1)) & mask", "R-C11-COMB", "comb: shift off by one")
T("K17", "C11", EC, "    window_size = 8\n", "    window_size = 4\n", "comb: a different window size is still a correct comb")
T("K18", "C11", EC, "        res = self.BatchDouble(res)\n        res = self.BatchAddList(res, points)", "        doubled = self.BatchDouble(res)\n        res = self.BatchAddList(points, doubled)", "comb: temporaries / commuted add")

# ---------------------------------------------------------------------------------- C14 Berlekamp-Massey refinement (round 2)
F("K20", "C14", BM, "      sc ^= sb\n  return deg_c", "      sc ^= sb\n    elif m == 64:\n      sb >>= m\n      sc >>= m\n      m = 0\n  return deg_c", "R-C14-BM", "BM: low word dropped from sb as well (seed r2)")
T("K21", "C14", BM, "      sc ^= sb\n  return deg_c", "      sc ^= sb\n    elif m == 64:\n      sc >>= m\n      m = 0\n  return deg_c", "BM: consumed zero bits of sc dropped (harmless)")
F("K22", "C14", BM, "      if 2 * deg_c <= n:", "      if 2 * deg_c < n:", "R-C14-BM", "BM: length change threshold strict")
F("K23", "C14", BM, "        deg_c = n + 1 - deg_c", "        deg_c = n - deg_c", "R-C14-BM", "BM: new length off by one")
F("K24", "C14", BM, "    disc = sc & (1 << m)\n    m += 1\n    if disc:\n      sc >>= m", "    disc = sc & (1 << m)\n    if disc:\n      sc >>= m\n    m += 1\n    if disc:", "R-C14-BM", "BM: shift by m instead of m+1")
F("K25", "C14", BM, "        sb, sc = sc, sb\n        deg_c = n + 1 - deg_c\n      sc ^= sb", "        sb, sc = sc, sb\n        deg_c = n + 1 - deg_c\n      else:\n        sc ^= sb", "R-C14-BM", "BM: no update of C on a length change")
F("K26", "C14", BM, "  for n in range(length):\n    disc", "  for n in range(length - 1):\n    disc", "R-C14-BM", "BM: last bit ignored")
T("K27", "C14", BM, "    disc = sc & (1 << m)\n    m += 1\n    if disc:", "    disc = (sc >> m) & 1\n    m += 1\n    if disc == 1:", "BM: discrepancy bit extracted by shift-and-mask")
T("K28", "C14", BM, "        sb, sc = sc, sb\n        deg_c = n + 1 - deg_c\n      sc ^= sb", "        tmp = sc\n        sc = sb ^ sc\n        sb = tmp\n        deg_c = n - deg_c + 1\n      else:\n        sc = sc ^ sb",
  "BM: swap through a temporary")

# ---------------------------------------------------------------------------------- C19 Bias statistic (round 2)
LSU = L + "randomness_tests/lattice_suite.py"
F("K31", "C19", LSU, "  p_value = util.UniformSumCdf(len(sample) * len(transforms), normalized)", "  p_value = util.UniformSumCdf(len(sample), normalized)", "R-C19-BIAS", "Bias: summand count ignores the transforms")
F("K32", "C19", LSU, "      v = min(v, n - v)", "      v = min(v, n + v)", "R-C19-BIAS", "Bias: distance to the nearest multiple broken")
F("K33", "C19", LSU, "  normalized = 2 * t / n", "  normalized = t / n", "R-C19-BIAS", "Bias: normalisation factor")
ROWS.append({"id": "K34", "prop": "C19", "expect": "fire", "rule": "R-C19-BIAS", "what": "Bias: counter incremented per sample only (seed r2)", "edits": [
    {"file": LSU, "old": "  t = 0\n  for s in sample:\n", "new": "  t = 0\n  count = 0\n  for s in sample:\n    count += 1\n"},
    {"file": LSU, "old": "util.UniformSumCdf(len(sample) * len(transforms), normalized)", "new": "util.UniformSumCdf(count, normalized)"}]})
ROWS.append({"id": "K35", "prop": "C19", "expect": "silent", "what": "Bias: counter incremented per term", "edits": [
    {"file": LSU, "old": "  t = 0\n  for s in sample:\n", "new": "  t = 0\n  count = 0\n  for s in sample:\n"},
    {"file": LSU, "old": "      t += v\n", "new": "      t += v\n      count += 1\n"},
    {"file": LSU, "old": "util.UniformSumCdf(len(sample) * len(transforms), normalized)", "new": "util.UniformSumCdf(count, normalized)"}]})
T("K36", "C19", LSU, "      v = (a * s + b) % n\n      v = min(v, n - v)\n      t += v", "      r = (b + s * a) % n\n      t += min(n - r, r)", "Bias: renamed temporaries, commuted")

# ---------------------------------------------------------------------------------- C12 purity (round 2)
ROWS.append({"id": "K40", "prop": "C12", "expect": "fire", "rule": "R-C12-PURE", "what": "overlapping-template table cached without the block length in the key (seed r2)", "edits": [
    {"file": NS, "old": "def OverlappingTemplateMatchingImpl(", "new": "_OTM_PI = {}\n\n\ndef OverlappingTemplateMatchingImpl("},
    {"file": NS, "old": "  pi = OverlappingTemplateMatchingDistribution(n, m, k)\n", "new": "  if (m, k) not in _OTM_PI:\n    _OTM_PI[m, k] = OverlappingTemplateMatchingDistribution(n, m, k)\n  pi = _OTM_PI[m, k]\n"}]})
ROWS.append({"id": "K41", "prop": "C12", "expect": "silent", "what": "the same cache keyed by every input of the table", "edits": [
    {"file": NS, "old": "def OverlappingTemplateMatchingImpl(", "new": "_OTM_PI = {}\n\n\ndef OverlappingTemplateMatchingImpl("},
    {"file": NS, "old": "  pi = OverlappingTemplateMatchingDistribution(n, m, k)\n", "new": "  if (n, m, k) not in _OTM_PI:\n    _OTM_PI[n, m, k] = OverlappingTemplateMatchingDistribution(n, m, k)\n  pi = _OTM_PI[n, m, k]\n"}]})
ROWS.append({"id": "K42", "prop": "C12", "expect": "fire", "rule": "R-C12-PURE", "what": "call counter in a module-level list changes later results", "edits": [
    {"file": NS, "old": "def OverlappingTemplateMatchingImpl(", "new": "_SEEN = []\n\n\ndef OverlappingTemplateMatchingImpl("},
    {"file": NS, "old": "  pi = OverlappingTemplateMatchingDistribution(n, m, k)\n", "new": "  _SEEN.append(n)\n  pi = OverlappingTemplateMatchingDistribution(_SEEN[0], m, k)\n"}]})

# ---------------------------------------------------------------------------------- C18 modular inversions (round 2, after fix 388cc4e)
F("K50", "C18", EC, "    if (x1 - x2) % self.mod == 0:\n      if (y1 - y2) % self.mod == 0:", "    if x1 == x2:\n      if y1 == y2:", "R-C18-INVERT", "Add: coordinates compared as integers again (defect before 388cc4e)")
F("K51", "C18", EC, "    if y % self.mod == 0:\n      return INFINITY\n", "", "R-C18-INVERT", "Double: no y = 0 (mod p) case (defect before 388cc4e)")
F("K52", "C18", EC, "    if y % self.mod == 0:\n      return INFINITY\n", "    if y == 0:\n      return INFINITY\n", "R-C18-INVERT", "Double: y tested as an integer")
T("K53", "C18", EC, "    if (x1 - x2) % self.mod == 0:\n      if (y1 - y2) % self.mod == 0:", "    if (x2 - x1) % self.mod == 0:\n      if (y1 - y2) % self.mod == 0:", "Add: difference taken the other way round")
T("K54", "C11", EC, "    if (x1 - x2) % self.mod == 0:\n      if (y1 - y2) % self.mod == 0:", "    if x1 == x2:\n      if y1 == y2:", "Add with integer comparison is still the group law on reduced points (C11 silent)")
F("K55", "C11", EC, "    if y % self.mod == 0:\n      return INFINITY\n", "    if x % self.mod == 0:\n      return INFINITY\n", "R-C11-DISPATCH", "Double: infinity returned for x = 0")

# ---------------------------------------------------------------------------------- C12/C13 matrix-size ladder (round 2)
ENS = L + "randomness_tests/extended_nist_suite.py"
F("K60", "C13", ENS, "  while size * size <= n:", "  while size * size < n:", "R-C13-RANK", "largest exactly fitting matrix never tested (seed r2)")
F("K61", "C12", ENS, "  while size * size <= n:", "  while size * size < n:", "R-C12-LADDER", "same change seen from C12")
T("K62", "C12", ENS, "  while size * size <= n:", "  while n >= size * size:", "ladder condition written the other way round")
T("K63", "C12", ENS, "  while size * size <= n:", "  while size * size < n + 1:", "strict comparison against n + 1")
F("K64", "C12", ENS, "    matrix = util.SplitSequence(truncated, size * size, size)", "    matrix = util.SplitSequence(truncated, size * size, 2 * size)", "R-C12-LADDER", "rows twice as long")

# ---------------------------------------------------------------------------------- C12 histogram shapes, semantic version (round 2)
T("K70", "C12", NS, "  v = [0] * (k + 1)\n  for i in range(num_matrices):\n    mat = rows[i * r:(i + 1) * r]\n    rank = util.BinaryMatrixRank(mat)\n    v[min(k, r - rank)] += 1\n  pi = RankDistribution(r, c, k)\n  p_value = ChiSquare(v, pi, k)",
  "  expected = RankDistribution(r, c, k)\n  counts = [0] * (1 + k)\n  for i in range(num_matrices):\n    deficiency = r - util.BinaryMatrixRank(rows[i * r:(i + 1) * r])\n    cls = deficiency if deficiency < k else k\n    counts[cls] = counts[cls] + 1\n  p_value = ChiSquare(counts, expected, k)",
  "rank histogram with renamed variables, reordered statements, conditional expression instead of min") 
F("K71", "C12", NS, "    idx = max(0, min(v_upper, x) - v_lower)", "    idx = max(0, min(v_upper, x) - v_lower - 1)", "R-C12-CONSIST", "longest-run class shifted by one")
F("K72", "C12", NS, "  v = [0] * (k + 1)\n  for i in range(num_matrices):", "  v = [0] * (k + 2)\n  for i in range(num_matrices):", "R-C12-CONSIST", "one class too many in the rank histogram")
T("K73", "C12", NS, "    elif length >= median + 3:", "    elif length > median + 3:", "linear-complexity upper boundary strict: length = median + 3 then takes the middle branch, index 6 all the same")
T("K73b", "C12", NS, "    elif length >= median + 3:", "    elif length >= median + 4:", "upper class one later: the middle branch gives 6 for median + 3 as well")
F("K73c", "C12", NS, "    elif length >= median + 3:", "    elif length >= median + 2:", "R-C12-CONSIST", "linear-complexity upper class starts one early (median + 2 lumped into class 6)")
F("K74", "C12", NS, "      return precomputed[:k] + [sum(precomputed[k:])]", "      return precomputed[:k] + [sum(precomputed[k + 1:])]", "R-C12-CONSIST", "lumped tail starts one class late")
F("K75", "C12", NS, "    v[min(k, cnt)] += 1\n  pi = OverlappingTemplateMatchingDistribution(n, m, k)", "    v[min(k, cnt)] += 1\n  pi = OverlappingTemplateMatchingDistribution(n, m, k - 1)", "R-C12-CONSIST", "table for another number of classes")
T("K76", "C12", NS, "  for p in params[::-1]:\n    if n >= p[0]:", "  for p in reversed(params):\n    if not n < p[0]:", "ladder via reversed() and a negated comparison")
F("K77", "C12", XS, "    if k >= len(ASYMPTOTIC_RANK_SF):", "    if k > len(ASYMPTOTIC_RANK_SF):", "R-C12-CONSIST", "deficiency equal to the table length indexes past the end")

# ---------------------------------------------------------------------------------- C12 aperiodic templates (round 3)
F("L01", "C12", NS, "  for i in range(1, m):\n    if template >> (m - i) == template & ((1 << i) - 1):", "  for i in range(1, (m + 1) // 2):\n    if template >> (m - i) == template & ((1 << i) - 1):", "R-C12-TEMPLATE", "only borders shorter than m/2 tested (seed r3)")
F("L02", "C12", NS, "    if template >> (m - i) == template & ((1 << i) - 1):", "    if template >> i == template & ((1 << i) - 1):", "R-C12-TEMPLATE", "prefix and suffix of different lengths compared")
T("L03", "C12", NS, "  for i in range(1, m):\n    if template >> (m - i) == template & ((1 << i) - 1):", "  for j in range(1, m):\n    low = template & ((1 << j) - 1)\n    if low == template >> (m - j):", "border test with renamed variable and temporary")
T("L04", "C12", NS, "    if template >> (m - i) == template & ((1 << i) - 1):", "    if template >> i == template & ((1 << (m - i)) - 1):", "border length m - i instead of i: the same set of lengths")
F("L06", "C12", NS, "    for b in range(2**m):\n      if IsNonOverlappingTemplate(b, m):", "    for b in range(2**(m - 1)):\n      if IsNonOverlappingTemplate(b, m):", "R-C12-TEMPLATE", "default set covers half of the templates")

# ---------------------------------------------------------------------------------- C10 giant-step lookup (round 3)
F("L10", "C10", EC, "      for j, x in enumerate(self.BatchAddX(p, list_c)):\n        if x in self._table:\n          for dl in", "      for j, x in enumerate(self.BatchAddX(p, list_c)):\n        if x is None:\n          continue\n        if x in self._table:\n          for dl in",
  "R-C10-COVER", "BatchDL: point at infinity skipped before the table lookup (seed r3)")
T("L11", "C10", EC, "      for j, x in enumerate(self.BatchAddX(p, list_c)):\n        if x in self._table:\n          for dl in", "      for j, x in enumerate(self.BatchAddX(p, list_c)):\n        if x not in self._table:\n          continue\n        if True:\n          for dl in",
  "BatchDL: lookup inverted into an early continue")

# ---------------------------------------------------------------------------------- round 3: accumulation, high-and-low-bits order, shifts, isolation
ES = L + "ecdsa_sig_checks.py"
F("L20", "C08", ES, "          guesses.update(\n              hnp.HiddenNumberProblemForCurve(a, b, curve_id,\n                                              self.lcg_params[0],\n                                              self.lcg_params[1]))",
  "          guesses = set(\n              hnp.HiddenNumberProblemForCurve(a, b, curve_id,\n                                              self.lcg_params[0],\n                                              self.lcg_params[1]))",
  "R-C08-ACCUM", "LCG guesses overwrite those of earlier issuers (seed r3)")
F("L21", "C17", ES, "          guesses.update(\n              hnp.HiddenNumberProblemForCurve(a, b, curve_id,\n                                              self.lcg_params[0],\n                                              self.lcg_params[1]))",
  "          guesses = set(\n              hnp.HiddenNumberProblemForCurve(a, b, curve_id,\n                                              self.lcg_params[0],\n                                              self.lcg_params[1]))",
  "R-C17-BYVALUE", "the same change seen from C17")
T("L22", "C08", ES, "          guesses.update(\n              hnp.HiddenNumberProblemForCurve(a, b, curve_id,\n                                              self.lcg_params[0],\n                                              self.lcg_params[1]))",
  "          found = hnp.HiddenNumberProblemForCurve(a, b, curve_id, self.lcg_params[0], self.lcg_params[1])\n          guesses |= set(found)",
  "LCG guesses merged with |= through a temporary")
F("L23", "C04", RU, "          s += 2 ** (i - m)\n          d = s**2 - n\n          if gmpy.is_square(d):\n            d_sqrt = gmpy.isqrt(d)\n            return [s - d_sqrt, s + d_sqrt]",
  "          d = s**2 - n\n          if gmpy.is_square(d):\n            d_sqrt = gmpy.isqrt(d)\n            return [s - d_sqrt, s + d_sqrt]\n          s += 2 ** (i - m)", "R-C04-HIGHLOW", "candidate tested before it is advanced (seed r3)")
T("L24", "C04", RU, "          s += 2 ** (i - m)\n          d = s**2 - n\n          if gmpy.is_square(d):", "          s = 2 ** (i - m) + s\n          cand = s\n          d = cand * cand - n\n          if gmpy.is_square(d):", "candidate through a temporary, s*s instead of s**2")
F("L25", "C04", RU, "        for _ in range(2**m):\n          s += 2 ** (i - m)", "        for _ in range(2**m - 1):\n          s += 2 ** (i - m)", "R-C04-HIGHLOW", "one pass short: total advance is not 2^i")
F("L26", "C18", EC, "    if shift > 0:\n      h >>= shift", "    if shift:\n      h >>= shift", "R-C18-SHIFT", "negative shift count for hashes shorter than the order (seed r3)")
T("L27", "C18", EC, "    if shift > 0:\n      h >>= shift", "    if shift >= 1:\n      h = h >> shift", "shift guarded by >= 1")

# ---------------------------------------------------------------------------------- C08 subset generator, semantic version (round 3)
F("L30", "C08", HN, "      num_constants = (sample_size - 1) // len(a) + 1\n      yield a, b, constant_list[:num_constants], w", "      num_constants = max(1, sample_size // len(a))\n      yield a, b, constant_list[:num_constants], w", "R-C08-SUBSETS", "floor instead of ceil constants in the exact regime (seed r3)")
T("L31", "C08", HN, "      num_constants = (sample_size - 1) // len(a) + 1\n      yield a, b, constant_list[:num_constants], w", "      count = (sample_size + len(a) - 1) // len(a)\n      yield a, b, constant_list[:count], w", "ceil written as (S + L - 1) // L")
F("L32", "C08", HN, "    elif len(a) >= min_signatures:\n", "    elif len(a) > min_signatures:\n", "R-C08-SUBSETS", "exactly min_signatures signatures produce no problem")
F("L33", "C08", HN, "          b0 = b[i : i + sliding_window_size]\n          yield a0, b0, constant_list[:num_constants], w", "          b0 = b[i + 1 : i + 1 + sliding_window_size]\n          yield a0, b0, constant_list[:num_constants], w", "R-C08-SUBSETS", "sliding windows of a and b misaligned")
F("L34", "C08", HN, "        yield a + [0], b + [1], constant_list[:num_constants], w", "        yield a + [1], b + [0], constant_list[:num_constants], w", "R-C08-SUBSETS", "key-inclusion sample swapped")
T("L35", "C08", HN, "    elif len(a) == min_signatures - 1:\n      if flags & SearchStrategy.INCLUDE_KEY:", "    elif len(a) + 1 == min_signatures and flags & SearchStrategy.INCLUDE_KEY:\n      if True:", "key-inclusion regime test rewritten")

# ---------------------------------------------------------------------------------- C12 cusum extrema, semantic version
F("L41", "C12", NS, "    maxs = max(0, max(total_cnt, default=0))", "    maxs = max(total_cnt, default=0)", "R-C12-CUSUM", "fall-back maximum no longer clamped with S_0 = 0 (defect before 0d3e4df)")
F("L42", "C12", NS, "      if s > maxs:\n        maxs = s", "      if s != maxs:\n        maxs = s", "R-C12-CUSUM", "maximum overwritten by any different state")

# ---------------------------------------------------------------------------------- C01 CheckGCD properness (after fix 92289d6)
RA = L + "rsa_aggregate_checks.py"
F("L50", "C01", RA, "          if proper is not None:\n            factors = factors + [proper, vals[i] // proper]\n", "", "R-C01-PROPER", "CheckGCD: proper factor no longer added when gcd == n (defect before 92289d6)")
F("L51", "C01", RA, "            if 1 < g < vals[i]:\n              proper = g", "            if 1 < g <= vals[i]:\n              proper = g", "R-C01-PROPER", "CheckGCD: the added factor may be the modulus itself")
F("L52", "C01", RA, "            factors = factors + [proper, vals[i] // proper]", "            factors = factors + [proper + 1, vals[i] // proper]", "R-C01-SINK", "CheckGCD: added value does not divide the modulus")
T("L53", "C03", RA, "          if proper is not None:\n            factors = factors + [proper, vals[i] // proper]\n", "          if proper is not None:\n            factors = factors + [vals[i] // proper, proper]\n", "C03: the batch gcd stays the first recorded value whatever follows")

# ---------------------------------------------------------------------------------- round 4 rows
F("M01", "C12", NS, "  tab = [-1] * 2**block_size\n", "  tab = [0] * 2**block_size\n", "R-C12-UNIVERSAL", "last-occurrence table starts at 0 with 0-based positions (seed r4)")
F("M02", "C12", NS, "    sumb += math.log(j - tab[b], 2)\n    tab[b] = j", "    tab[b] = j\n    sumb += math.log(j - tab[b] + 1, 2)", "R-C12-UNIVERSAL", "table updated before the distance is read")
ROWS.append({"id": "M03", "prop": "C12", "expect": "silent", "what": "1-based positions with a table that starts at 0", "edits": [
    {"file": NS, "old": "  tab = [-1] * 2**block_size\n  for i in range(q):\n    tab[blocks[i]] = i\n", "new": "  tab = [0] * 2**block_size\n  for i in range(1, q + 1):\n    tab[blocks[i - 1]] = i\n"},
    {"file": NS, "old": "  for j in range(q, q + k):\n    b = blocks[j]\n", "new": "  for j in range(q + 1, q + k + 1):\n    b = blocks[j - 1]\n"}]})
F("M04", "C17", EC, "    giant_steps = 2 + n // t\n", "    giant_steps = 2 + n // (2 * self._table_size - 1)\n", "R-C17-CACHE", "giant-step count from the cached table size (seed r4)")
F("M05", "C10", EC, "    giant_steps = 2 + n // t\n", "    giant_steps = 2 + n // (2 * self._table_size - 1)\n", "R-C10-COVER", "the same change seen from C10")
F("M06", "C03", RA, "      if gcds[i] >= self._gcd_bound:", "      if gcds[i].bit_length() >= self._gcd_bound.bit_length():", "R-C03-VERDICT", "N-1 verdict compares bit lengths")
T("M07", "C03", RA, "      if gcds[i] >= self._gcd_bound:", "      if not gcds[i] < self._gcd_bound:", "N-1 verdict with a negated comparison")
F("M10", "C19", LSU, "    if diff < best_diff:\n      best_j, best_diff = j, diff\n", "    if diff < best_diff:\n      best_j, best_diff = j, diff\n    elif best_j:\n      break\n", "R-C19-PSEUDOAVG", "scan stops at the first local minimum (seed r4)")
F("M11", "C19", LSU, "    diff = 2 * sx * m + j * (const_j - j * n)", "    diff = 2 * sx * m + j * (const_j - n)", "R-C19-PSEUDOAVG", "variance change misses the j^2 n term")
F("M12", "C19", LSU, "  pseudo_average = (sum_a + n * best_j + m // 2) // m % n", "  pseudo_average = (sum_a + n * best_j) // m % n", "R-C19-PSEUDOAVG", "mean truncated instead of rounded")
T("M13", "C19", LSU, "    diff = 2 * sx * m + j * (const_j - j * n)\n    if diff < best_diff:\n      best_j, best_diff = j, diff", "    delta = j * (n * m - 2 * sum_a) - j * j * n + 2 * m * sx\n    if not delta >= best_diff:\n      best_diff = delta\n      best_j = j",
  "variance change expanded, comparison negated, tuple assignment split")
F("M20", "C13", NS, "  if excursions >= 500:\n    for x in range(-max_state, max_state + 1):", "  if excursions >= min(0.005 * math.sqrt(n), 500):\n    for x in range(-max_state, max_state + 1):", "R-C13-GATE", "excursion test gated on min(.., 500) (seed r4)")
T("M21", "C13", NS, "  if excursions >= 500:\n    for x in range(-max_state, max_state + 1):", "  if excursions >= max(0.005 * math.sqrt(n), 500):\n    for x in range(-max_state, max_state + 1):", "excursion test gated on NIST's max(0.005 sqrt n, 500): stricter, still >= 500")
F("M22", "C20", L + "randomness_tests/rng.py", "        64: 2862933555777941757,", "        64: 2862933555777941775,", "R-C20-CONST", "64-bit multiplier digits transposed")
F("M23", "C16", L + "paranoid.py", "def GetECAllChecks() -> dict[str, base_check.ECKeyCheck]:\n  if not _check_factory[_EC_ALL]:", "def GetECAllChecks() -> dict[str, base_check.ECKeyCheck]:\n  if not _check_factory[_EC_SINGLES]:", "R-C16-REGISTRY", "combined EC table guarded by the single-check table (seed r4)")
F("M24", "C18", EC, "        tmp[i] = (p[0] - q[0]) % self.mod\n    tmp = self.BatchInverse(tmp)\n    for i, v in enumerate(tmp):\n      if v:\n        t = v * (p[1] - points[i][1]) % self.mod\n        x =", "        tmp[i] = p[0] - q[0]\n    tmp = self.BatchInverse(tmp)\n    for i, v in enumerate(tmp):\n      if v:\n        t = v * (p[1] - points[i][1]) % self.mod\n        x =", "R-C18-INVERT", "BatchAddX hands unreduced differences to BatchInverse (seed r4)")

# ---------------------------------------------------------------------------------- round 5 rows
import os as _os, re as _re


def _hunks(path):
  """unified diff -> [{"file", "old", "new"}] (one edit per hunk: context + removed lines / context + added lines)."""
  edits, cur, f = [], None, None
  for line in open(path).read().splitlines():
    if line.startswith("+++ "):
      f = line[4:].strip()
      f = f[2:] if f.startswith("b/") else f
    elif line.startswith("@@"):
      cur = {"file": f, "old": [], "new": [], "line": int(_re.search(r"@@ -(\d+)", line).group(1))}
      edits.append(cur)
    elif cur is not None and not line.startswith(("diff ", "index ", "--- ")):
      if line.startswith("-"):
        cur["old"].append(line[1:])
      elif line.startswith("+"):
        cur["new"].append(line[1:])
      elif line.startswith(" ") or line == "":
        cur["old"].append(line[1:])
        cur["new"].append(line[1:])
  return [{"file": e["file"], "old": "\n".join(e["old"]) + "\n", "new": "\n".join(e["new"]) + "\n", "line": e["line"]} for e in edits]


def S(id, prop, seed, rule, what):
  """the stored seeded change /verif/seeded/<seed>/patch.diff as a fire row"""
  p = _os.path.join(_os.path.dirname(_os.path.dirname(_os.path.abspath(__file__))), "seeded", seed, "patch.diff")
  ROWS.append({"id": id, "prop": prop, "expect": "fire", "rule": rule, "what": what + " (seed %s)" % seed, "edits": _hunks(p)})


S("N01", "C01", "C01-r5a", "R-C01-PROPER", "CheckGCD compares the pairwise gcd with the other modulus")
S("N02", "C01", "C01-r5b", "R-C01-MERGE", "AttachFactors merges with the N_FACTORS record whatever it writes")
S("N03", "C02", "C02-r5a", "R-C02-VERIFY", "Multiply(P, -1) returns P")
S("N04", "C02", "C02-r5b", "R-C02-VERIFY", "comb covers 8 * floor(bits / 8) bits")
S("N05", "C03", "C03-r5a", "R-C03-VERDICT", "N-1 batch built from n >> 1")
S("N06", "C03", "C03-r5b", "R-C03-OWN", "CheckGCD shares one result entry")
S("N07", "C04", "C04-r5a", "R-C04-FERMAT", "Fermat loop one candidate short")
S("N08", "C04", "C04-r5b", "R-C04-LISTED", "one listed 1024-bit output commented out")
S("N09", "C05", "C05-r5a", "R-C05-HW", "low-Hamming-weight pruning drops the upper edge")
S("N10", "C05", "C05-r5b", "R-C05-PM1", "prime-power exponents from bit lengths")
S("N11", "C06", "C06-r5a", "R-C06-OWN", "CheckROCA shares one result entry")
S("N12", "C06", "C06-r5b", "R-C06-TABLES", "211 mistyped as 221 in the variant table")
S("N13", "C07", "C07-r5a", "R-C07-TREE", "product tree of one value returns T = 0")
S("N14", "C07", "C07-r5b", "R-C07-EXACT", "batch accumulator gates the ROCA verdict")
S("N15", "C08", "C08-r5a", "R-C08-GUESS", "comb drops bit 520 on secp521r1")
S("N16", "C08", "C08-r5b", "R-C08-FEED", "digest stripped of leading zero bytes before truncation")
S("N17", "C09", "C09-r5a", "R-C09-BYTES", "Hex2Bytes through the integer value")
S("N18", "C09", "C09-r5b", "R-C09-HNP", "inverse of s memoised across curves")
S("N19", "C10", "C10-r5a", "R-C10-COVER", "giant step 2T")
S("N20", "C10", "C10-r5b", "R-C10-DUP", "single new key never compared with the history list")
S("N21", "C11", "C11-r5a", "R-C11-DISPATCH", "fall-back adds the last point of the list")
S("N22", "C11", "C11-r5b", "R-C11-CURVES", "brainpoolP256r1 order with one wrong digit")
S("N23", "C12", "C12-r5a", "R-C12-BITS", "padding from bit_length: all-zero string has length + 1 entries")
S("N24", "C12", "C12-r5b", "R-C12-CONSIST", "asymptotic rank table for non-square shapes")
S("N25", "C13", "C13-r5a", "R-C13-SF", "survival probability of rank deficiency 5 printed 100 times too small")
S("N26", "C13", "C13-r5b", "R-C13-CTOR", "min(1, min_repetitions)")
S("N27", "C14", "C14-r5a", "R-C14-BM", "zero-padding shortcut with n // 2 + 1")
S("N28", "C14", "C14-r5b", "R-C14-CLOSED", "LfsrCount(n, n) = 0")
S("N29", "C16", "C16-r5a", "R-C16-MONO", "AttachFactors overwrites instead of merging")
S("N30", "C16", "C16-r5b", "R-C16-PAIR", "Pollard p-1 weak-without-factors does not reach the return value")
S("N31", "C17", "C17-r5a", "R-C17-STATELESS", "BatchMultiplyG memo is a class attribute shared by all curves")
S("N32", "C17", "C17-r5b", "R-C17-INDIVIDUAL", "unseeded candidates of the first key reused")
S("N33", "C18", "C18-r5a", "R-C18-INTPOW", "2 ** (prime_size - 512) below the 384-bit gate")
S("N34", "C18", "C18-r5b", "R-C18-NULL", "CURVE_FACTORY[curve id of the batch]")
S("N35", "C19", "C19-r5a", "R-C19-ROOTS", "negative roots filtered out")
S("N36", "C19", "C19-r5b", "R-C19-SQRT", "small-k filter compares with the unreduced n")
S("N37", "C20", "C20-r5a", "R-C20-PURE", "seed multiple of 2^31 - 1 replaced by urandom")
S("N38", "C20", "C20-r5b", "R-C20-WIDTH", "Lehmer masks only when n % 8")
# cross-property silence: the C18 seed leaves the partition semantics alone
ROWS.append({"id": "N39", "prop": ["C07", "C08", "C17"], "expect": "silent", "what": "curve ids taken from the batch instead of the factory keys: partitions unchanged (seed C18-r5b seen from C07 / C08 / C17)",
             "edits": _hunks(_os.path.join(_os.path.dirname(_os.path.dirname(_os.path.abspath(__file__))), "seeded", "C18-r5b", "patch.diff"))})
NS_ = L + "randomness_tests/nist_suite.py"
F("N40", "C12", NS_, "  return min(1.0, max(0.0, 1.0 + res / 2))\n", "  return 1.0 + res / 2\n", "R-C12-RANGE", "cumulative-sums p-value unclamped (defect before 9350a9e)")
T("N41", "C12", NS_, "  return min(1.0, max(0.0, 1.0 + res / 2))\n", "  p_value = 1.0 + res / 2\n  return max(0.0, min(p_value, 1.0))\n", "clamp written the other way round")
F("N42", "C12", NS_, "  s_obs = abs(s) / math.sqrt(n)\n", "  s_obs = s / math.sqrt(n)\n", "R-C12-RANGE", "Frequency: erfc of a signed statistic ranges over [0, 2]")
T("N43", "C12", L + "randomness_tests/util.py", "  res = array.array(\"b\", [-1]) * (length - len(b))\n", "  pad = length - len(b)\n  res = array.array(\"b\", [-1]) * pad\n", "Bits: padding count named")
T("N44", "C13", L + "randomness_tests/random_test_suite.py", "    self.min_repetitions = min_repetitions\n", "    self.min_repetitions = max(1, min_repetitions)\n", "at least one repetition (no-op: a test has run once when it is judged)")
T("N45", "C20", L + "randomness_tests/rng.py", "    res = int.from_bytes(ba, \"little\")\n    if 8 * len(ba) != n:\n      res &= (1 << n) - 1\n    return res\n\n\nclass Pcg64", "    res = int.from_bytes(ba, \"little\")\n    if 8 * len(ba) > n:\n      res &= (1 << n) - 1\n    return res\n\n\nclass Pcg64", "Lehmer: mask when too long")
T("N46", "C17", L + "ec_util.py", "    self._cache = {}\n", "    self._cache = dict()\n", "memo created by dict()")
T("N47", "C19", L + "ntheory_util.py", "    return [x for x in range(2**k) if (x * x - n) % 2**k == 0]", "    return [x for x in range(2**k) if x * x % 2**k == n % 2**k]", "small-k filter with both sides reduced")
T("N48", "C19", L + "small_roots.py", "    rx = -factor[0].TC() // factor[0].LC()\n    y = f(rx)\n", "    rx = -factor[0].TC() // factor[0].LC()\n    if not -b < rx < b:\n      continue\n    y = f(rx)\n", "candidates outside the documented range skipped")
T("N49", "C05", L + "rsa_util.py", "          if rem0 <= p0 + q0:", "          if rem0 < p0 + q0 + 1:", "pruning bound written strictly")
T("N50", "C18", L + "rsa_util.py", "      2 ** (prime_size - 256),\n", "      2 ** (prime_size - 256),\n      2 ** (prime_size - 384),\n", "a difference covered by the 384-bit gate")

# ---------------------------------------------------------------------------------- round 6 rows (38 stored patches)
S("O01", "C01", "C01-r6a", "R-C01-PROPER", "the acceptance test for a gcd obtained from a rational root of the quadratic a*z^2+b*z+c w")
S("O02", "C01", "C01-r6b", "R-C01-SINK", "rsa_aggregate_checks.CheckGCDN1.Check now feeds BatchGCD with n >> 1 instead of n - 1 (com")
S("O03", "C02", "C02-r6a", "R-C02-SANITISE", "ecdsa_sig_checks._IssuerDLogs now multiplies the lattice guesses in blocks of 256 (range(0")
S("O04", "C02", "C02-r6b", "R-C02-ALIGN", "ec_aggregate_checks.CheckECKeySmallDifference.Check now de-duplicates the public points of")
S("O05", "C03", "C03-r6a", "R-C03-DEDUP", "rsa_util.BatchGCD no longer multiplies T by other_values_prod before the remainder tree; i")
S("O06", "C03", "C03-r6b", "R-C03-EMPTY", "rsa_aggregate_checks.CheckGCD.Check now computes its return value once as any_weak = max(g")
S("O07", "C04", "C04-r6a", "R-C04-EXHAUST", "rsa_util.CheckSmallUpperDifferences now skips a difference D whenever the derived guess p0")
S("O08", "C04", "C04-r6b", "R-C04-MSB", "rsa_single_checks.CheckUnseededRand now fetches the unseeded-PRNG table from the storage o")
S("O09", "C05", "C05-r6a", "R-C05-CONSTRUCT", "rsa_util.CheckContinuedFraction now expands the continued fraction of only the leading qua")
S("O10", "C05", "C05-r6b", "R-C05-PM1", "ntheory_util.FastProduct now multiplies adjacent pairs with an index loop (range(0, len(va")
S("O11", "C06", "C06-r6a", "R-C06-PRED", "rsa_single_checks.CheckSizes.Check no longer converts the modulus to an integer to take it")
S("O12", "C06", "C06-r6b", "R-C06-PRED", "ec_single_checks.CheckWeakCurve.Check now compares the curve order against the value 2**22")
S("O13", "C07", "C07-r6a", "R-C07-EXACT", "rsa_single_checks.CheckExponents.Check no longer converts rsa_info.e to an integer but com")
S("O14", "C07", "C07-r6b", "R-C07-NEIGHBOUR", "the per-issuer-key `test_result = self._CreateTestResult()` was hoisted out of the `for ke")
S("O15", "C08", "C08-r6a", "R-C08-WINDOW", "ecdsa_sig_checks.BiasedBaseCheck.Check now only iterates over the window sizes of (24, 48,")
S("O16", "C08", "C08-r6b", "R-C08-LCG-TABLE", "the lattice weight 'w' of the shipped model for GMP's 156-bit-state LCG on secp384r1 is no")
S("O17", "C09", "C09-r6a", "R-C09-PAIR", "ecdsa_sig_checks.BiasedBaseCheck.Check now wraps HiddenNumberParams in try/except ZeroDivi")
S("O18", "C09", "C09-r6b", "R-C09-HNP", "In ec_util.CURVE_FACTORY the dictionary key of the brainpoolP512r1 entry was changed from ")
S("O19", "C10", "C10-r6a", "R-C10-DUP", "In ec_util.EcCurve.BatchDLOfDifferences the duplicate-key guard inside the inner compariso")
S("O20", "C10", "C10-r6b", "R-C10-FORMS", "In ec_util.EcCurve.ExtendedBatchDL the multipliers of the 'repeated 32-bit word' family (1")
S("O21", "C11", "C11-r6a", "R-C11-DISPATCH", "In EcCurve.BatchAdd the zero-denominator fallback no longer calls self.Add(p, points[i]); ")
S("O22", "C11", "C11-r6b", "R-C11-SCALAR", "EcCurve.Multiply now defers the sign of a negative scalar to the end (negative = n < 0; n ")
S("O23", "C12", "C12-r6a", "R-C12-MINSIZE", "the guard of the random excursions variant test (Section 2.15) was changed from `excursion")
S("O24", "C12", "C12-r6b", "R-C12-CONSIST", "the centre of the linear-complexity classes was 'simplified' from `median = (m + 1) // 2` ")
S("O25", "C13", "C13-r6a", "R-C13-ENTRY", "random_test_suite.TestSource now skips a TestStructure in the repeat loop when it is finis")
S("O26", "C13", "C13-r6b", "R-C13-FISHER", "util.CombinedPValue (Fisher's method) now drops p-values equal to 1.0 before combining ('l")
S("O27", "C14", "C14-r6a", "R-C14-BM", "Added an early exit inside the main loop of berlekamp_massey.LinearComplexityNative: after")
S("O28", "C14", "C14-r6b", "R-C14-CLOSED", "berlekamp_massey.LfsrLogProbability no longer uses its own integer piecewise formula but d")
S("O29", "C16", "C16-r6a", "R-C16-MONO", "util.GetTestResult (the lookup SetTestResult uses to decide between 'update existing entry")
S("O30", "C16", "C16-r6b", "R-C16-ENTRY", "in the 'suspected but not factored' branch the severity downgrade is written to the check ")
S("O31", "C17", "C17-r6a", "R-C17-OWN", "the per-issuer-key `test_result = self._CreateTestResult()` was hoisted out of the `for ke")
S("O32", "C17", "C17-r6b", "R-C17-CACHE", "the number of high blocks was changed from the ceiling `r = (n + m - 1) // m` to the floor")
S("O33", "C18", "C18-r6a", "R-C18-NEXT", "the for/break search for a proper factor of a fully-shared modulus (with its `proper is no")
S("O34", "C18", "C18-r6b", "R-C18-JACOBIAN", "the guard `if z == 0 or y == 0: return INFINITY_JACOBIAN` became `if z == 0: return p` (re")
S("O35", "C19", "C19-r6a", "R-C19-DIVMOD", "ntheory_util.DivmodRounded now adds d = (b + 1) // 2 instead of d = b // 2 before the floo")
S("O36", "C19", "C19-r6b", "R-C19-ROOTS", "small_roots.multivariate_modp's final acceptance test was 'hardened' from `y != 0 and n % ")
S("O37", "C20", "C20-r6a", "R-C20-PURE", "NumpyRng (base of pcg64/philox/sfc64) now keeps the numpy BitGenerator built for the last ")
S("O38", "C20", "C20-r6b", "R-C20-CONST", "JavaRandom.RandomBits scrambles the seed with `(seed ^ a) % mask` instead of `(seed ^ a) &")

# silent twins of the round-6 rules
T("O40", "C12", NS_, "  if excursions >= 500:\n    for x in range(-max_state_variant, max_state_variant + 1):", "  if not excursions < 500:\n    for x in range(-max_state_variant, max_state_variant + 1):", "variant gate spelled as a negation")
T("O41", "C06", L + "rsa_single_checks.py", "      if e != 65537:", "      if not e == 0x10001:", "exponent criterion with a negated equality and a hex literal")
T("O42", "C04", L + "rsa_util.py", "    factors = special_case_factoring.FactorWithGuess(n, p0)\n    if factors:\n      return factors\n", "    factors = special_case_factoring.FactorWithGuess(n, p0)\n    if not factors:\n      continue\n    return factors\n", "continue after the candidate was tested")
T("O43", "C09", L + "ecdsa_sig_checks.py", "        a, b = [None] * len(unique_vals), [None] * len(unique_vals)\n", "        a = [None] * len(unique_vals)\n        b = [None] * len(unique_vals)\n", "the two lists allocated separately")
T("O44", "C18", L + "rsa_aggregate_checks.py", "          proper = None\n          for val in vals:\n            g = gmpy.gcd(vals[i], val)\n            if 1 < g < vals[i]:\n              proper = g\n              break\n", "          proper = next((g for g in (gmpy.gcd(vals[i], val) for val in vals) if 1 < g < vals[i]), None)\n", "next() with a default")

# ---------------------------------------------------------------------------------- round 7 rows (38 stored patches)
S("Q01", "C01", "C01-r7a", "R-C01-MERGE", "util.GetAttachedInfo was refactored to a single-return loop (attached_info = None; for ...")
S("Q02", "C01", "C01-r7b", "R-C01-PROPER", "rsa_util.CheckFraction (the lattice helper behind CheckBitPatterns and CheckPermutedBitPat")
S("Q03", "C02", "C02-r7a", "R-C02-VERIFY", "ec_util.EcCurve.Double (the affine point doubling helper) now returns y2 = y + t*(x2 - x),")
S("Q04", "C02", "C02-r7b", "R-C02-RELEASE", "ec_util.EcCurve.BatchDL now accepts a baby-step/giant-step candidate as soon as the x-coor")
S("Q05", "C03", "C03-r7a", "R-C03-RECORD", "util.AttachInfo (the helper through which CheckGCD/CheckGCDN1 record their factors via uti")
S("Q06", "C03", "C03-r7b", "R-C03-RECORD", "util.GetTestResult now matches a stored result whose test_name STARTS WITH the requested n")
S("Q07", "C04", "C04-r7a", "R-C04-RECORD", "util.AttachFactors (the helper every RSA factoring check uses to record the primes in test")
S("Q08", "C04", "C04-r7b", "R-C04-ALWAYS", "rsa_single_checks.CheckFermat.Check now skips every key whose test_info already contains a")
S("Q09", "C05", "C05-r7a", "R-C05-EXHAUST", "In rsa_single_checks.CheckPermutedBitPatterns.Check the test that leaves the outer limb-si")
S("Q10", "C05", "C05-r7b", "R-C05-CONSTRUCT", "In rsa_util.CheckFraction the lattice scaling factor was changed from x = 2 ** d0.bit_leng")
S("Q11", "C06", "C06-r7a", "R-C06-PRED", "ec_single_checks.CheckValidECKey.Check now treats a curve as unknown only when its identif")
S("Q12", "C06", "C06-r7b", "R-C06-PRED", "rsa_single_checks.CheckExponents no longer converts the exponent to an integer before deci")
S("Q13", "C07", "C07-r7a", "R-C07-REPEAT", "ec_util.EcCurve.BatchDLOfDifferences: the duplicate-key guard `if x is None: continue` was")
S("Q14", "C07", "C07-r7b", "R-C07-REPEAT", "rsa_aggregate_checks.CheckGCD now keeps the product of all moduli of earlier Check calls i")
S("Q15", "C08", "C08-r7a", "R-C08-WEIGHT", "hidden_number_problem.GetLattice: the default lattice-weight ladder for MSB / COMMON_PREFI")
S("Q16", "C08", "C08-r7b", "R-C08-GUESS", "ec_util.EcCurve.BatchDouble: the tangent numerator 3*x*x + self.a was replaced by 3*(x+1)*")
S("Q17", "C09", "C09-r7a", "R-C09-BYTES", "util.Int2Bytes now sizes its output as (bit_length + 8) // 8 instead of (bit_length + 7) /")
S("Q18", "C09", "C09-r7b", "R-C09-FEED", "ec_util.ECDSAValues now keeps only the low n.bit_length() // 8 bytes of the r and s fields")
S("Q19", "C10", "C10-r7a", "R-C10-ARITH", "In ec_util.EcCurve.BatchAddX the fallback for entries without a usable inverse (previously")
S("Q20", "C10", "C10-r7b", "R-C10-COVER", "In ec_util.EcCurve.BatchDL the number of giant steps is now derived from the size of the c")
S("Q21", "C11", "C11-r7a", "R-C11-COMB", "EcCurve._cache (the table of precomputed comb multiples k*G used by BatchMultiplyG) was mo")
S("Q22", "C11", "C11-r7b", "R-C11-DISPATCH", "EcCurve.Negate now recognises the point at infinity with an identity test (`if p is INFINI")
S("Q23", "C12", "C12-r7a", "R-C12-LADDER", "extended_nist_suite.LargeBinaryMatrixRank: the loop over matrix sizes was changed from `wh")
S("Q24", "C12", "C12-r7b", "R-C12-LADDER", "nist_suite.BlockFrequency: the block-size doubling loop `while n // m >= 100` was rewritte")
S("Q25", "C13", "C13-r7a", "R-C13-ENTRY", "random_test_suite.TestStructure.Failed() no longer reads the per-sub-test State computed b")
S("Q26", "C13", "C13-r7b", "R-C13-HOLDOUT", "lattice_suite.FindBiasImpl step 4 now computes the p-value with Bias(sample, ...) instead ")
S("Q27", "C14", "C14-r7a", "R-C14-CLOSED", "berlekamp_massey.LfsrCount: the small-m branch was rewritten from int(2 * 4**(m - 1)) to t")
S("Q28", "C14", "C14-r7b", "R-C14-SCATTER", "extended_nist_suite.LinearComplexityScatter: the per-sequence length `size = (n + step_siz")
S("Q29", "C16", "C16-r7a", "R-C16-SEVERITY", "util.GetHighestSeverity now gates on `test_info.weak` instead of `test_result.result`, so ")
S("Q30", "C16", "C16-r7b", "R-C16-ONCE", "ec_aggregate_checks.CheckECKeySmallDifference.Check now filters each per-curve key list do")
S("Q31", "C17", "C17-r7a", "R-C17-STATELESS", "rsa_single_checks.CheckLowHammingWeight.Check: for a 'suspected but not factored' modulus ")
S("Q32", "C17", "C17-r7b", "R-C17-STATELESS", "ec_util.EcCurve.ExtendedBatchDL: the modular inverses of the weak-form multipliers (2**(8j")
S("Q33", "C18", "C18-r7a", "R-C18-SANITY", "cr50_u2f_weakness.Cr50U2fSubProblem now tests the lattice relation k1*a + k2*b == +/-w on ")
S("Q34", "C18", "C18-r7b", "R-C18-NULL", "ec_single_checks.CheckWeakCurve.Check: the lookup `curve = CURVE_FACTORY.get(curve_type, N")
S("Q35", "C19", "C19-r7a", "R-C19-TREE", "ntheory_util.ExtendedProductTree's early exit for the empty batch (`if not values`) was wi")
S("Q36", "C19", "C19-r7b", "R-C19-FISHER", "randomness_tests/util.CombinedPValue no longer returns 0 when a p-value is 0; the `min(pva")
S("Q37", "C20", "C20-r7a", "R-C20-WIDTH", "rng.XorShift128plus.RandomBits computes the number of 64-bit blocks as `n // 64 + 1` inste")
S("Q38", "C20", "C20-r7b", "R-C20-PURE", "rng.Mwc.RandomBits now reduces a given seed modulo a*b-1 up front and merges the seeded an")


# ---------------------------------------------------------------------------------- mutation-fuzz guided rules (R-C19-LINALG, R-C19-SIEVE, R-C08-EXTRACT, ...)
LA_ = L + "linalg_util.py"
F("R01", "C19", LA_, "    num = b[i] - sum(a[i][j] * xs[j] for j in range(i + 1, ncols))", "    num = b[i] - sum(a[i][j] * xs[j] for j in range(i + 2, ncols))",
  "R-C19-LINALG", "back-substitution forgets the nearest solved unknown")
F("R02", "C19", LA_, "  for i in range(nrows - 1, -1, -1):\n    den = a[i][i]", "  for i in range(nrows):\n    den = a[i][i]",
  "R-C19-LINALG", "back-substitution runs top-down (uses unknowns not yet solved)")
F("R03", "C19", LA_, "    if den == 0:\n      return None", "    if den == 0:\n      den = 1", "R-C19-LINALG", "zero pivot replaced by 1 instead of giving None")
F("R04", "C19", LA_, "  rank = echelon_form(a, b)\n  if rank != ncols:", "  rank = echelon_form(a)\n  if rank != ncols:", "R-C19-LINALG", "elimination on a only: b keeps the original right-hand side")
F("R05", "C19", LA_, "  return upper_triangular_solve(a[:rank], b[:rank])", "  return upper_triangular_solve(a[:rank], b[-rank:])", "R-C19-LINALG", "last rows of b paired with first rows of a")
F("R06", "C19", LA_, "  if rank != ncols:\n    return None  # Not", "  if rank > ncols:\n    return None  # Not", "R-C19-LINALG", "rank-deficient systems are back-substituted")
F("R07", "C19", LA_, "        b[j] = a[i][i] * b[j] - a[j][i] * b[i]", "        b[j] = a[i][i] * b[j] + a[j][i] * b[i]", "R-C19-LINALG", "b gets a different row operation than a")
F("R08", "C19", LA_, "          b[j] //= a[i - 1][i - 1]", "          b[j] //= a[i][i]", "R-C19-LINALG", "b divided by the current instead of the previous pivot")
F("R09", "C19", LA_, "        a[j][k] //= a[i - 1][i - 1]\n", "        a[j][k] //= a[i][i]\n", "R-C19-LINALG", "a divided by the current pivot (division not exact)")
F("R10", "C19", LA_, "        if b:\n          b.insert(nrows, b.pop(j))\n        a.insert(nrows, a.pop(j))\n        nrows -= 1", "        a.insert(nrows, a.pop(j))\n        nrows -= 1",
  "R-C19-LINALG", "dependent row moved in a but not in b")
F("R11", "C19", LA_, "    j = i + 1\n    while j < nrows:", "    j = i + 2\n    while j < nrows:", "R-C19-LINALG", "row i+1 is never reduced")
F("R12", "C19", LA_, "        a.insert(nrows, a.pop(j))\n        nrows -= 1\n      else:", "        a.insert(nrows, a.pop(j))\n        nrows -= 1\n        j += 1\n      else:",
  "R-C19-LINALG", "the row that slides into position j after a move is skipped")
F("R13", "C19", LA_, "  while i < n - 1:\n    # Searches", "  while i < n - 2:\n    # Searches", "R-C19-LINALG", "last pivot column not eliminated")
F("R14", "C19", LA_, "      for j in range(i + 1, nrows):\n        if b:\n          b[j] //=", "      for j in range(i, nrows):\n        if b:\n          b[j] //=",
  "R-C19-LINALG", "pivot row divided again")
F("R15", "C19", LA_, "      if b:\n        b[j] = a[i][i] * b[j] - a[j][i] * b[i]\n      all_zeros = True\n      for k in range(i + 1, ncols):\n        a[j][k] = a[i][i] * a[j][k] - a[j][i] * a[i][k]\n        if all_zeros and a[j][k] != 0:\n          all_zeros = False\n      a[j][i] = 0\n",
  "      all_zeros = True\n      for k in range(i + 1, ncols):\n        a[j][k] = a[i][i] * a[j][k] - a[j][i] * a[i][k]\n        if all_zeros and a[j][k] != 0:\n          all_zeros = False\n      a[j][i] = 0\n      if b:\n        b[j] = a[i][i] * b[j] - a[j][i] * b[i]\n",
  "R-C19-LINALG", "b updated after a[j][i] was cleared (multiplier read as 0)")
T("R16", "C19", LA_, "    num = b[i] - sum(a[i][j] * xs[j] for j in range(i + 1, ncols))\n    xs[i] = gmpy.mpq(num, den)",
  "    acc = 0\n    for j in range(i + 1, ncols):\n      acc += a[i][j] * xs[j]\n    xs[i] = gmpy.mpq(b[i] - acc, den)", "back-substitution sum as an accumulator loop")
T("R17", "C19", LA_, "  for i in range(nrows - 1, -1, -1):\n    den = a[i][i]", "  for i in reversed(range(nrows)):\n    den = a[i][i]", "reversed(range(n))")
T("R18", "C19", LA_, "        if b:\n          b.insert(nrows, b.pop(j))\n        a.insert(nrows, a.pop(j))\n        nrows -= 1", "        a.insert(nrows, a.pop(j))\n        if b:\n          b.insert(nrows, b.pop(j))\n        nrows -= 1",
  "row move of a before that of b")
NT_ = L + "ntheory_util.py"
F("R20", "C19", NT_, "  for i in range(2, gmpy.isqrt(n) + 1):", "  for i in range(2, gmpy.isqrt(n)):", "R-C19-SIEVE", "candidate isqrt(n) is not sieved (its square is reported prime)")
F("R21", "C19", NT_, "      for j in range(i * i, n, i):", "      for j in range(i * i + i, n, i):", "R-C19-SIEVE", "squares of primes are not cleared")
F("R22", "C19", NT_, "      for j in range(i * i, n, i):", "      for j in range(i * i, n, i + 1):", "R-C19-SIEVE", "stride is not the candidate")
T("R23", "C19", NT_, "      for j in range(i * i, n, i):", "      for j in range(2 * i, n, i):", "multiples from 2i")
HN_ = L + "hidden_number_problem.py"
F("R30", "C08", HN_, "      guess = (v[1] * inverse) % n\n      guesses.add(int(guess))\n  return list(guesses)\n\n\ndef HiddenNumberProblemWithPrecomputation", "      guess = (v[0] * inverse) % n\n      guesses.add(int(guess))\n  return list(guesses)\n\n\ndef HiddenNumberProblemWithPrecomputation",
  "R-C08-EXTRACT", "guess taken from the wrong coordinate")
U("R31", "C08", HN_, "      guesses.add(int(guess))\n  return list(guesses)\n\n\ndef HiddenNumberProblemWithPrecomputation", "      pass\n  return list(guesses)\n\n\ndef HiddenNumberProblemWithPrecomputation",
  "no guess is ever collected")
CR_ = L + "cr50_u2f_weakness.py"
F("R32", "C08", CR_, "  b = -r1 * s2 % n\n  w = (r2 * z1 - r1 * z2) % n", "  b = r1 * s2 % n\n  w = (r2 * z1 - r1 * z2) % n", "R-C08-EXTRACT", "sign of the second coefficient of the U2F sub-problem")
F("R33", "C08", CR_, "    x1 = (s1 * k1 - z1) * r1inv % n", "    x1 = (s1 * k1 + z1) * r1inv % n", None, "private key formula x = (s k - z)/r")
F("R40", "C11", L + "ec_util.py", "      x, y = p\n      return (x, y, 1)", "      x, y = p\n      return (x, y, 0)", "R-C11-FORMULA", "finite point converted to a Jacobian point at infinity")
F("R41", "C11", L + "ec_util.py", "      x, y = p\n      return (x, y, 1)", "      x, y = p\n      return (y, x, 1)", "R-C11-FORMULA", "coordinates swapped by AffineToJacobian")
F("R42", "C02", L + "ec_util.py", "      x, y = p\n      return (x, y, 1)", "      x, y = p\n      return (x, y, 2)", "R-C02-VERIFY", "z = 2: Multiply(G, k) no longer reproduces the key")

# lattice bases (write tables), search wiring, definite assignment
F("R50", "C08", HN_, "  lat[0] = [n * w + 1, 0] + [v * w for v in a]", "  lat[0] = [n * w - 1, 0] + [v * w for v in a]", "R-C08-LATTICE", "first basis vector is -1 instead of 1 mod n")
F("R51", "C08", HN_, "  lat[1] = [0, 1] + [v * w for v in b]", "  lat[1] = [0, 1] + [v * w for v in a]", "R-C08-LATTICE", "second basis vector built from a")
F("R52", "C08", HN_, "  for j in range(2, lat_size):\n    lat[j][j] = n * w\n  if bias == Bias.MSB:", "  for j in range(3, lat_size):\n    lat[j][j] = n * w\n  if bias == Bias.MSB:", "R-C08-LATTICE", "first sample is not reduced modulo n")
F("R53", "C08", HN_, "  elif bias == Bias.COMMON_PREFIX:\n    for j in range(2, lat_size):\n      lat[2][j] = w", "  elif bias == Bias.COMMON_PREFIX:\n    for j in range(2, lat_size):\n      lat[j][2] = w", "R-C08-LATTICE", "all-ones vector written as a column")
F("R54", "C08", HN_, "    a = [v * w_inv % n for v in a]\n    b = [v * w_inv % n for v in b]", "    a = [v * w_inv % n for v in a]\n    b = [v * w % n for v in b]", "R-C08-LATTICE", "postfix problem: b scaled by w instead of 1/w")
F("R55", "C08", HN_, "  elif bias == Bias.GENERALIZED:\n    lat[0][0] = 1\n", "  elif bias == Bias.GENERALIZED:\n    lat[0][0] = 0\n", "R-C08-LATTICE", "generalized lattice loses the multiplier coordinate")
F("R56", "C08", HN_, "      lattice[0][t] = (a[i] * c - d) % n * w", "      lattice[0][t] = (a[i] * c + d) % n * w", "R-C08-LATTICE", "sign of the model offset d")
F("R57", "C08", HN_, "      t = i * len(constants) + j + 2", "      t = i * len(constants) + j + 1", "R-C08-LATTICE", "sample columns shifted onto the key column")
F("R58", "C08", HN_, "      lattice[1][t] = (b[i] * c % n) * w", "      lattice[1][t] = (b[i] * c % n)", "R-C08-LATTICE", "b row not scaled by w")
F("R59", "C08", CR_, "    lat[j + words][-1] = v * b % p", "    lat[j + words][-1] = v * a % p", "R-C08-LATTICE", "second block of the U2F lattice uses a")
F("R60", "C08", CR_, "  lat[-2][-2] = 256", "  lat[-2][-2] = 1", "R-C08-LATTICE", "U2F lattice: weight of the w row")
F("R61", "C08", CR_, "    k2 = abs(sum(v * w for v, w in zip(basis, row[words : 2 * words])))", "    k2 = abs(sum(v * w for v, w in zip(basis, row[:words])))", "R-C08-EXTRACT", "k2 read from the coordinates of k1")
F("R62", "C08", CR_, "    x2 = (s2 * k2 - z2) * int(gmpy.invert(r2, n)) % n", "    x2 = (s2 * k2 + z2) * int(gmpy.invert(r2, n)) % n", "R-C08-EXTRACT", "cross-check formula wrong: every correct pair raises")
F("R63", "C08", HN_, "    if v[0] % n != 0:\n      guess = v[1] * gmpy.invert(v[0], n) % n", "    if v[0] % n != 0:\n      guess = v[0] * gmpy.invert(v[1], n) % n", "R-C08-EXTRACT", "precomputation solver: quotient inverted")
F("R64", "C08", HN_, "    if constants[\"curve\"] != curve_type:\n      continue", "    if constants[\"curve\"] != curve_type:\n      break", "R-C08-SUBSETS", "first model of another curve ends the search")
F("R65", "C08", HN_, "    if lcg not in [constants[\"lcg\"], None]:", "    if lcg in [constants[\"lcg\"], None]:", "R-C08-SUBSETS", "model selection inverted")
F("R66", "C08", HN_, "  if not flags:\n    raise ValueError(\"No flags specified\")", "  if flags:\n    raise ValueError(\"No flags specified\")", "R-C08-SUBSETS", "every non-empty strategy refused")
F("R67", "C08", HN_, "    guesses += HiddenNumberProblemWithPrecomputation(a0, b0, n, constants, w)", "    guesses = HiddenNumberProblemWithPrecomputation(a0, b0, n, constants, w)", "R-C08-SUBSETS", "only the guesses of the last problem are returned")
F("R68", "C08", HN_, "    guesses += HiddenNumberProblemWithPrecomputation(a0, b0, n, constants, w)", "    guesses += HiddenNumberProblemWithPrecomputation(a0, b0, w, constants, n)", "R-C08-SUBSETS", "modulus and weight swapped at the call")
T("R69", "C08", HN_, "  lat[0] = [n * w + 1, 0] + [v * w for v in a]", "  lat[0][0] = n * w + 1\n  for i_, v_ in enumerate(a):\n    lat[0][i_ + 2] = v_ * w", "first basis vector filled cell by cell")
T("R70", "C08", HN_, "  for j in range(2, lat_size):\n    lat[j][j] = n * w\n  if bias == Bias.MSB:", "  for j in range(len(a)):\n    lat[j + 2][j + 2] = w * n\n  if bias == Bias.MSB:", "diagonal with a shifted index")
LS_ = L + "randomness_tests/lattice_suite.py"
F("R75", "C13", LS_, "    mat[1][i] = w\n", "    mat[1][i] = n\n", "R-C13-SEARCH", "offset vector scaled by n")
F("R76", "C13", LS_, "  mat = GetLattice(training_sample, w, n)", "  mat = GetLattice(training_sample, n, w)", "R-C13-SEARCH", "modulus and weight swapped at the call")
F("R77", "C13", LS_, "    if c0 != 0 and math.gcd(c0, n)**2 < n:\n      c = c0\n      break", "    if c0 != 0 and math.gcd(c0, n)**2 < n:\n      c = c0\n      continue", "R-C13-SEARCH", "the last usable row wins instead of the shortest")
F("R78", "C13", LS_, "  biased = [x * c % n for x in training_sample]", "  biased = [x % n for x in training_sample]", "R-C13-SEARCH", "offset fitted for the untransformed blocks")
F("R79", "C13", LS_, "    c0 = row[0] % n", "    c0 = row[1] % n", "R-C13-SEARCH", "multiplier read from the offset coordinate")
F("R80", "C13", LS_, "    if i > 1:\n      mat[i][i] = n * w", "    if i > 2:\n      mat[i][i] = n * w", "R-C13-SEARCH", "second sample not reduced modulo n")
T("R81", "C13", LS_, "  for i in range(1, size):\n    mat[0][i] = a[i - 1] * w\n    mat[1][i] = w\n    if i > 1:\n      mat[i][i] = n * w",
  "  for i in range(len(a)):\n    mat[0][i + 1] = a[i] * w\n    mat[1][i + 1] = w\n  for i in range(2, size):\n    mat[i][i] = w * n", "two loops instead of a guarded one")
F("R85", "C18", L + "ec_util.py", "      if i == steps - 1:\n        res = points\n      else:", "      if i == steps - 2:\n        res = points\n      else:", "R-C18-DEFINED", "comb accumulator used before its first binding")
T("R88", "C18", L + "ec_util.py", "      if i == steps - 1:\n        res = points\n      else:\n        res = self.BatchDouble(res)\n        res = self.BatchAddList(res, points)",
  "      if i != steps - 1:\n        res = self.BatchDouble(res)\n        res = self.BatchAddList(res, points)\n      else:\n        res = points", "first-pass initialisation with the branches swapped")


# ---------------------------------------------------------------------------------- seeded round 8
S("T01", "C01", "C01-r8a", "R-C01-SINK", "In CheckGCD's fall-back branch (batch gcd equals the modulus itself), the cofactor recorde")
S("T02", "C01", "C01-r8b", "R-C01-WEAK", "In util.SetTestResult the update of TestInfo.weak was moved from the top of the function i")
S("T03", "C02", "C02-r8a", "R-C02-VERIFY", "EcCurve.AffineToJacobian (ec_util.py) was 'simplified' to unpack the point first and detec")
S("T04", "C02", "C02-r8b", "R-C02-VERIFY", "EcCurve.BatchAddList (ec_util.py, the batched point addition used only by BatchMultiplyG, ")
S("T05", "C03", "C03-r8a", "R-C03-TREE", "ntheory_util.ExtendedProductTree now carries the t-value of the unpaired last node of an o")
S("T06", "C03", "C03-r8b", "R-C03-DEDUP", "rsa_util.BatchGCD no longer multiplies T by other_values_prod; instead it adds other_value")
S("T07", "C04", "C04-r8a", "R-C04-EXHAUST", "special_case_factoring.FactorWithGuess now breaks out of the continued-fraction loop as so")
S("T08", "C04", "C04-r8b", "R-C04-MSB", "rsa_single_checks.CheckUnseededRand.Check now derives the prime size for the unseeded-tabl")
S("T09", "C05", "C05-r8a", "R-C05-CUT", "In CheckBitPatterns.Check the skip of pattern sizes above n.bit_length() // 8 was turned f")
S("T10", "C05", "C05-r8b", "R-C05-PM1", "ntheory_util.FastProduct now pairs neighbours with an index loop (range(0, len(values) - 1")
S("T11", "C06", "C06-r8a", "R-C06-KEYGEN", "In keypair_generator.Generator.generate_prime the candidate alignment `p += 31 - p % 30` w")
S("T12", "C06", "C06-r8b", "R-C06-PRED", "roca.ROCAKeyVariantDetector now builds the product of its 48 primes (5..229) in __init__ a")
S("T13", "C07", "C07-r8a", "R-C07-NEIGHBOUR", "ec_util.EcCurve.BatchDLOfDifferences: as an 'optimisation' a key that is recognised as a d")
S("T14", "C07", "C07-r8b", "R-C07-NEIGHBOUR", "rsa_aggregate_checks.CheckGCD.Check now removes repeated moduli itself before calling the ")
S("T15", "C08", "C08-r8a", "R-C08-MARKALL", "ecdsa_sig_checks._IssuerDLogs (the helper that maps the solvers' key guesses back to signa")
S("T16", "C08", "C08-r8b", "R-C08-GUESS", "ec_util.EcCurve: the per-curve cache of generator multiples used by BatchMultiplyG (self._")
S("T17", "C09", "C09-r8a", "R-C09-TRUNC", "EcCurve.TransformOrderLen (ec_util.py) got a 'fast path' early exit `if h < self.n: return")
S("T18", "C09", "C09-r8b", "R-C09-BYTES", "ec_util.PublicPoint now memoizes the parsed issuer point in a module-level dict (_PUBLIC_P")
S("T19", "C10", "C10-r8a", "R-C10-TABLE", "In ec_util.EcCurve.PointTable the number of rows of the two-level baby-step table was 'sim")
S("T20", "C10", "C10-r8b", "R-C10-CACHE", "In ec_util.EcCurve.BatchDLOfDifferences the decision whether the cached baby-step table mu")
S("T21", "C11", "C11-r8a", "R-C11-FORMULA", "EcCurve.Subtract no longer calls Negate(q); it returns p early when q is infinity and othe")
S("T22", "C11", "C11-r8b", "R-C11-DISPATCH", "EcCurve.AddJacobian now detects the doubling case with a tuple comparison `if p == q: retu")
S("T23", "C12", "C12-r8a", "R-C12-PURE", "OverlappingTemplateMatchingImpl now memoises the exactly derived bin probabilities pi_0..p")
S("T24", "C12", "C12-r8b", "R-C12-FORMULA", "util.Dft (the DFT helper below nist_suite.Spectral) now zero-pads its input to scipy's nex")
S("T25", "C13", "C13-r8a", "R-C13-RANK", "In extended_nist_suite.LargeBinaryMatrixRank the loop over matrix sizes was changed from `")
S("T26", "C13", "C13-r8b", "R-C13-STATE", "In random_test_suite.TestStructure.Run the repeat bound CombinedPValue([p_value_repeat] * ")
S("T27", "C14", "C14-r8b", "R-C14-CLOSED", "LfsrLogProbability (randomness_tests/berlekamp_massey.py) was 'simplified' by dropping the")
S("T28", "C16", "C16-r8a", "R-C16-PAIR", "In ecdsa_sig_checks.BiasedBaseCheck.Check (shared by the six LCG/nonce-bias checks) the pe")
S("T29", "C16", "C16-r8b", "R-C16-MONO", "In util.AttachFactors the update branch `factors = factors.union(old_set)` became `factors")
S("T30", "C17", "C17-r8a", "R-C17-CACHE", "In ec_util.EcCurve.PointTable the number of high-part rows was changed from the ceiling di")
S("T31", "C17", "C17-r8b", "R-C17-BYVALUE", "In ec_util.EcCurve.BatchDLOfDifferences a key that has just been matched against an earlie")
S("T32", "C18", "C18-r8a", "R-C18-ALIGN", "rsa_util.BatchGCD gained a fast path that skips the product/remainder trees when fewer tha")
S("T33", "C18", "C18-r8b", "R-C18-INVERT", "hidden_number_problem.HiddenNumberProblem: the guard that skips reduced lattice rows whose")
S("T34", "C19", "C19-r8a", "R-C19-PSEUDOAVG", "PseudoAverage (randomness_tests/lattice_suite.py) now breaks out of the split-point scan a")
S("T35", "C19", "C19-r8b", "R-C19-BIAS", "In Bias (randomness_tests/lattice_suite.py) the accumulation 't += v' was de-indented out ")
S("T36", "C20", "C20-r8a", "R-C20-CONST", "JavaRandom.RandomBits: the seed scrambling (seed ^ a) & mask was rewritten as (seed % mask")
S("T37", "C20", "C20-r8b", "R-C20-PURE", "XorShiftStar.RandomBits: the 'if seed: x = seed % 2**64 else: urandom' seeding was restruc")


# ---------------------------------------------------------------------------------- Universal's L by n (finding 10, fixed d1508ed)
_UL = "  block_size = max(size for (size, bound) in min_n.items() if bound <= n)"
F("U01", "C12", NS, _UL, "  block_size = min(size for (size, bound) in min_n.items() if bound <= n)", "R-C12-LADDER", "the defect itself: always L = 6")
F("U02", "C12", NS, _UL, "  block_size = max(size for (size, bound) in min_n.items() if bound < n)", "R-C12-LADDER", "n equal to a bound gets the row below")
F("U03", "C12", NS, "  q = 10 * 2**block_size\n  return UniversalImpl", "  q = 10 * 2**(block_size - 1)\n  return UniversalImpl", "R-C12-LADDER", "Q = 10 * 2^(L-1)")
T("U04", "C12", NS, _UL, "  block_size = max(size for size in min_n if n >= min_n[size])", "the same selection over the keys")
T("U05", "C12", NS, _UL, "  admissible = [size for (size, bound) in min_n.items() if not bound > n]\n  block_size = max(admissible)", "selection through a temporary list")


# ---------------------------------------------------------------------------------- zero-pivot row move (finding 11, fixed 9fbde9d)
_ZP = "      if b:\n        b.insert(nrows - 1, b.pop(i))\n      a.insert(nrows - 1, a.pop(i))\n      pivots += 1"
F("U06", "C19", LA_, _ZP, "      if b:\n        b.insert(nrows, b.pop(i))\n      a.insert(nrows, a.pop(i))\n      pivots += 1", "R-C19-LINALG", "the defect itself: the row lands behind a parked zero row")
F("U07", "C19", LA_, _ZP, "      if b:\n        b.insert(nrows - 1, b.pop(i))\n      a.insert(nrows - 2, a.pop(i))\n      pivots += 1", "R-C19-LINALG", "a and b moved to different places")
T("U08", "C19", LA_, _ZP, "      last = nrows - 1\n      if b:\n        b.insert(last, b.pop(i))\n      a.insert(last, a.pop(i))\n      pivots += 1", "position through a temporary")
T("U09", "C19", LA_, _ZP, "      row = a.pop(i)\n      a.insert(nrows - 1, row)\n      if b:\n        rhs = b.pop(i)\n        b.insert(nrows - 1, rhs)\n      pivots += 1", "pop and insert split")


# ---------------------------------------------------------------------------------- seeded round 9
S("V01", "C01", "C01-r9a", "R-C01-CERT", "rsa_util.FactorHighAndLowBitsEqual (helper behind CheckHighAndLowBitsEqual) no longer reco")
S("V02", "C01", "C01-r9b", "R-C01-WEAK", "util.SetTestResult no longer sets TestInfo.weak from the incoming test_result.result; afte")
S("V03", "C02", "C02-r9a", "R-C02-CODEC", "EcCurve.ExtendedBatchDL now 'normalises' the found discrete log with `dlog * multiplier % ")
S("V04", "C02", "C02-r9b", "R-C02-ALIGN", "In CheckCr50U2f.Check the issuer_dlogs map is now initialised once before the per-curve lo")
S("V05", "C03", "C03-r9a", "R-C03-DEDUP", "rsa_util.BatchGCD no longer multiplies T by other_values_prod before the remainder tree; i")
S("V06", "C03", "C03-r9b", "R-C03-VERDICT", "CheckGCDN1.Check compares bit lengths (gcds[i].bit_length() >= self._gcd_bound.bit_length(")
S("V07", "C04", "C04-r9a", "R-C04-EXHAUST", "special_case_factoring.FactorWithGuess now stops iterating over the continued-fraction con")
S("V08", "C04", "C04-r9b", "R-C04-MSB", "CheckUnseededRand.Check now builds the top-bit variants (p_0 | msb_1, p_0 | msb_11) only f")
S("V09", "C05", "C05-r9a", "R-C05-EXHAUST", "In CheckPermutedBitPatterns.Check (rsa_single_checks.py) the outer-loop exit `if test_resu")
S("V10", "C05", "C05-r9b", "R-C05-CUT", "In CheckBitPatterns.Check (rsa_single_checks.py) the skip of pattern sizes larger than n.b")
S("V11", "C06", "C06-r9a", "R-C06-PRED", "rsa_single_checks.CheckOpensslDenylist.__init__ now memoises the parsed denylist in a clas")
S("V12", "C06", "C06-r9b", "R-C06-PRED", "ec_util.EcCurve.Multiply now reduces the multiplier modulo the generator order first (`n %")
S("V13", "C07", "C07-r9a", "R-C07-NEIGHBOUR", "In ecdsa_sig_checks.CheckIssuerKey.Check the per-issuer-key `test_result = self._CreateTes")
S("V14", "C07", "C07-r9b", "R-C07-NEIGHBOUR", "In ec_util.EcCurve.BatchDLOfDifferences a point is now appended to the running `negated` c")
S("V15", "C08", "C08-r9a", "R-C08-FEED", "ec_util.ECDSAValues now passes h.bit_length() (bit length of the digest interpreted as an ")
S("V16", "C08", "C08-r9b", "R-C08-GUESS", "EcCurve._cache (the table of window multiples of the generator used by BatchMultiplyG) was")
S("V17", "C09", "C09-r9a", "R-C09-PAIR", "In BiasedBaseCheck.Check (ecdsa_sig_checks.py) the signature whose (r, s, hash) is turned ")
S("V18", "C09", "C09-r9b", "R-C09-FEED", "ec_util.ECDSAValues now passes the message hash length in bytes (hlen = len(sig.message_ha")
S("V19", "C10", "C10-r9a", "R-C10-TABLE", "EcCurve.PointTable now skips the point at infinity (x-coordinate None) when filling the ba")
S("V20", "C10", "C10-r9b", "R-C10-DUP", "In EcCurve.BatchDLOfDifferences the duplicate-key skip ('if x is None: continue') became '")
S("V21", "C11", "C11-r9a", "R-C11-DISPATCH", "EcCurve.BatchAddList: the fall-back branch taken when BatchInverse returns None no longer ")
S("V22", "C11", "C11-r9b", "R-C11-SCALAR", "EcCurve.MultiplyAffine: the double-and-add loop now stops at 'while n > 1' and the top bit")
S("V23", "C12", "C12-r9a", "R-C12-CONSIST", "In nist_suite.RankDistribution the shortcut that returns the precomputed asymptotic square")
S("V24", "C12", "C12-r9b", "R-C12-CUSUM", "In nist_suite.RandomWalk the two independent fall-backs that recover the walk's maximum an")
S("V25", "C13", "C13-r9a", "R-C13-RANK", "In extended_nist_suite.LargeBinaryMatrixRank the loop over matrix sizes now runs `while si")
S("V26", "C13", "C13-r9b", "R-C13-STATE", "In random_test_suite.TestStructure.Run the repeat threshold CombinedPValue([p_value_repeat")
S("V27", "C14", "C14-r9a", "R-C14-CLOSED", "In berlekamp_massey.LfsrCount the dedicated `elif m == 0: return 1` branch was removed, so")
S("V28", "C14", "C14-r9b", "R-C14-CLOSED", "In berlekamp_massey.LfsrLogProbability the argument guard `if m < 0 or m > n` was rewritte")
S("V29", "C16", "C16-r9a", "R-C16-ONCE", "rsa_single_checks.CheckUnseededRand.Check now skips a key with `continue` (before its Test")
S("V30", "C16", "C16-r9b", "R-C16-MONO", "util.SetTestResult no longer only raises test_info.weak on a positive result but recompute")
S("V31", "C17", "C17-r9a", "R-C17-BYVALUE", "In ntheory_util.ExtendedProductTree (the producer of the value T = sum(P//v) that rsa_util")
S("V32", "C17", "C17-r9b", "R-C17-INDIVIDUAL", "In rsa_single_checks.CheckKeypairDenylist.Check the 32-byte seed buffer used to re-generat")
S("V33", "C18", "C18-r9a", "R-C18-NULL", "In rsa_util.FactorHighAndLowBitsEqual the guard `if n % 8 != 1: return None` was micro-opt")
S("V34", "C18", "C18-r9b", "R-C18-ALIGN", "In ecdsa_sig_checks.BiasedBaseCheck.Check the issuer-key -> signature-index map is now bui")
S("V35", "C19", "C19-r9a", "R-C19-SIEVE", "ntheory_util.Sieve was 'optimised' to an odd-only sieve (even numbers crossed out by one s")
S("V36", "C19", "C19-r9b", "R-C19-HENSEL", "ntheory_util.InverseSqrt2exp: the brute-force special case for k < 3 and the separate `n %")
S("V37", "C20", "C20-r9a", "R-C20-CONST", "In TruncLcgRand.RandomBits the LCG step was 'optimised' to use a hoisted bit mask, but the")
S("V38", "C20", "C20-r9b", "R-C20-PURE", "XorShiftStar.RandomBits now treats a reduced 64-bit state of 0 like a missing seed: x = se")


# ---------------------------------------------------------------------------------- names that resolve nowhere (NameError)
F("U10", "C12", NS, "  rows = util.SplitSequence(bits, n, c)\n", "  matrix_rows = util.SplitSequence(bits, n, c)\n", "R-C12-DEFINED", "a local renamed at its binding only: the old name is read as a global that does not exist")
F("U11", "C18", L + "rsa_util.py", "  prime_size = n.bit_length() // 2\n  # This implementation assumes", "  psize = n.bit_length() // 2\n  # This implementation assumes", "R-C18-DEFINED", "binding renamed, uses left behind")
F("U12", "C12", NS, "  k = len(blocks) - q\n  mean, std = UniversalDistribution", "  k = len(blocks) - q - 1\n  mean, std = UniversalDistribution", "R-C12-UNIVERSAL", "the last block is never a test block")
T("U13", "C12", NS, "  k = len(blocks) - q\n  mean, std = UniversalDistribution", "  total = len(blocks)\n  k = total - q\n  mean, std = UniversalDistribution", "K through a temporary")
F("U14", "C12", NS, "    mat = rows[i * r:(i + 1) * r]", "    mat = rows[i * r:(i + 1) * r + 1]", "R-C12-CONSIST", "matrices of r + 1 rows that overlap")
F("U15", "C12", NS, "    mat = rows[i * r:(i + 1) * r]", "    mat = rows[i:i + r]", "R-C12-CONSIST", "sliding instead of disjoint matrices")
T("U16", "C12", NS, "    mat = rows[i * r:(i + 1) * r]", "    first = r * i\n    mat = rows[first:first + r]", "slice bounds through a temporary")
F("U17", "C12", NS, "      cnts.append(cnt)\n      cnt = collections.defaultdict(int)\n  cnts.append(cnt)", "      cnts.append(cnt)\n  cnts.append(cnt)", "R-C12-CYCLES", "all cycles share one counter object")
F("U18", "C12", NS, "    if s > max_state2:\n      if s > maxs:", "    if s >= max_state2:\n      if s > maxs:", "R-C12-CYCLES", "visits to the outermost state of the band are not counted")
F("U19", "C12", NS, "    elif s != 0:\n      cnt[s] += 1", "    elif s > 0:\n      cnt[s] += 1", "R-C12-CYCLES", "a negative state closes the cycle")
F("U20", "C12", NS, "      cnt = collections.defaultdict(int)\n  cnts.append(cnt)\n  total_cnt", "      cnt = collections.defaultdict(int)\n  total_cnt", "R-C12-CYCLES", "the last cycle is dropped")
T("U21", "C12", NS, "    elif s != 0:\n      cnt[s] += 1\n    else:\n      cnts.append(cnt)\n      cnt = collections.defaultdict(int)", "    elif s == 0:\n      cnts.append(cnt)\n      cnt = collections.defaultdict(int)\n    else:\n      cnt[s] = cnt[s] + 1", "branches swapped, increment spelled out")
_RD = "      prob_dependent = 2**(j - r)\n      res[j + 1] += res[j] * (1 - prob_dependent)\n      res[j] *= prob_dependent"
F("U22", "C12", NS, _RD, "      prob_dependent = 2**(j - r)\n      res[j] *= prob_dependent\n      res[j + 1] += res[j] * (1 - prob_dependent)", "R-C12-RANKDP", "rank j scaled before it is read")
F("U23", "C12", NS, _RD, "      prob_dependent = 2**(j - r - 1)\n      res[j + 1] += res[j] * (1 - prob_dependent)\n      res[j] *= prob_dependent", "R-C12-RANKDP", "span probability halved")
F("U24", "C12", NS, "    for j in range(r - 1, -1, -1):\n      prob_dependent", "    for j in range(r):\n      prob_dependent", "R-C12-RANKDP", "in-place update from the bottom")
F("U25", "C12", NS, "  return res[-k:][::-1] + [sum(res[:-k])]", "  return res[-k:] + [sum(res[:-k])]", "R-C12-RANKDP", "classes in ascending rank")
F("U26", "C12", NS, "  for _ in range(c):\n    for j in range(r - 1", "  for _ in range(r):\n    for j in range(r - 1", "R-C12-RANKDP", "one step per row instead of per column")
T("U27", "C12", NS, _RD, "      p_in = 2**(j - r)\n      cur = res[j]\n      res[j] = cur * p_in\n      res[j + 1] = res[j + 1] + cur * (1 - p_in)", "old value through a temporary, lower rank first")
F("U28", "C13", TS, "    if isinstance(test_result, float) or isinstance(test_result, int):", "    if isinstance(test_result, float) and isinstance(test_result, int):", "R-C13-STATE", "a bare float is no longer wrapped (TypeError in the merge loop)")
T("U29", "C13", TS, "    if isinstance(test_result, float) or isinstance(test_result, int):", "    if isinstance(test_result, (float, int)):", "one isinstance with a tuple")
F("U30", "C14", ENS, "  if max_block_size is not None and step_size * max_block_size < n:", "  if max_block_size is not None:", "R-C14-SCATTER", "the 'truncation' may lengthen the input")
T("U31", "C14", ENS, "  if max_block_size is not None and step_size * max_block_size < n:", "  if max_block_size is not None and n > max_block_size * step_size:", "comparison mirrored")
T("U32", "C12", NS, "    if s > max_state2:\n      if s > maxs:\n        maxs = s\n    elif s < -max_state2:\n      if s < mins:\n        mins = s\n    elif s != 0:\n      cnt[s] += 1\n    else:\n      cnts.append(cnt)\n      cnt = collections.defaultdict(int)",
  "    if s == 0:\n      cnts.append(cnt)\n      cnt = collections.defaultdict(int)\n    elif abs(s) <= max_state2:\n      cnt[s] += 1\n    elif s > 0:\n      maxs = max(maxs, s)\n    else:\n      mins = min(mins, s)", "digit loop restructured around abs(s)")
T("U33", "C18", L + "rsa_util.py", "  r0 = ntheory_util.Inverse2exp(ntheory_util.InverseSqrt2exp(n, k + 1), k + 1)", "  inv_root = ntheory_util.InverseSqrt2exp(n, k + 1)\n  r0 = ntheory_util.Inverse2exp(inv_root, k + 1)", "optional result through a temporary")
T("U34", "C18", L + "rsa_util.py", "  if n % 8 != 1:\n    return None\n  # Computes a square root r0", "  if 1 != n % 8:\n    return None\n  # Computes a square root r0", "guard mirrored")
T("U35", "C18", L + "rsa_util.py", "  r0 = ntheory_util.Inverse2exp(ntheory_util.InverseSqrt2exp(n, k + 1), k + 1)", "  inv_root = ntheory_util.InverseSqrt2exp(n, k + 1)\n  if inv_root is None:\n    return None\n  r0 = ntheory_util.Inverse2exp(inv_root, k + 1)", "explicit None test added")


# ---------------------------------------------------------------------------------- issuer keys grouped by curve type and point (finding 13, fixed cf045e6)
_IK = "      point = (sig.issuer_key_info.curve_type,\n               ec_util.PublicPoint(sig.issuer_key_info))"
_IL = "      for i in points[(key.ec_info.curve_type,\n                       ec_util.PublicPoint(key.ec_info))]:"
_EF = L + "ecdsa_sig_checks.py"
ROWS.append({"id": "U36", "prop": "C17", "expect": "fire", "rule": "R-C17-BYVALUE", "what": "the defect itself: issuer keys grouped by coordinates only", "edits": [
    {"file": _EF, "old": _IK, "new": "      point = ec_util.PublicPoint(sig.issuer_key_info)"},
    {"file": _EF, "old": _IL, "new": "      for i in points[ec_util.PublicPoint(key.ec_info)]:"}]})
ROWS.append({"id": "U37", "prop": "C17", "expect": "silent", "what": "key components in the other order, through a temporary", "edits": [
    {"file": _EF, "old": _IK, "new": "      info = sig.issuer_key_info\n      point = (ec_util.PublicPoint(info), info.curve_type)"},
    {"file": _EF, "old": _IL, "new": "      for i in points[(ec_util.PublicPoint(key.ec_info), key.ec_info.curve_type)]:"}]})


# ---------------------------------------------------------------------------------- seeded round 10
S("W01", "C01", "C01-r10a", "R-C01-WEAK", "util.SetTestResult now sets test_info.weak only in the branch that appends a NEW test-resu")
S("W02", "C01", "C01-r10b", "R-C01-CERT", "rsa_util.FermatFactor: the incremental update of b2 = a^2 - n was 'folded' from (b2 += a; ")
S("W03", "C02", "C02-r10a", "R-C02-CODEC", "EcCurve.ExtendedBatchDL (ec_util.py) now 'canonicalises' the discrete log it returns with ")
S("W04", "C02", "C02-r10b", "R-C02-SANITISE", "_IssuerDLogs (ecdsa_sig_checks.py) now drops zero guesses before the verifying batch multi")
S("W05", "C03", "C03-r10a", "R-C03-TREE", "ntheory_util.ExtendedProductTree: the unpaired last node of an odd-length tree level is ca")
S("W06", "C03", "C03-r10b", "R-C03-VERDICT", "rsa_aggregate_checks.CheckGCDN1: the constructor now stores only gcd_bound.bit_length() an")
S("W07", "C04", "C04-r10a", "R-C04-MSB", "CheckUnseededRand.Check now caches the per-prime-size list of guesses (listed unseeded out")
S("W08", "C04", "C04-r10b", "R-C04-FERMAT", "rsa_util.FermatFactor was 'simplified' to start the search at a = floor(sqrt(n)) (b2 = a*a")
S("W09", "C05", "C05-r10a", "R-C05-HW", "In rsa_util.CheckLowHammingWeight the prime size was rewritten from ceil(bit_length/2) = (")
S("W10", "C05", "C05-r10b", "R-C05-SIZES", "In CheckBitPatterns.Check the per-key 'skip sizes above n.bit_length() // 8' test inside t")
S("W11", "C06", "C06-r10a", "R-C06-KEYGEN", "keypair_generator.Generator.generate_key: the 'sort so that p >= q' step was hoisted out o")
S("W12", "C06", "C06-r10b", "R-C06-DENY-FORMAT", "CheckOpensslDenylist.Check: the 'Modulus=<HEX>' string that is hashed for the openssl-vuln")
S("W13", "C07", "C07-r10a", "R-C07-NEIGHBOUR", "In ecdsa_sig_checks.CheckCr50U2f.Check the loop that stores the per-curve results enumerat")
S("W14", "C07", "C07-r10b", "R-C07-NEIGHBOUR", "In ec_util.EcCurve.ExtendedBatchDL the list of transformed points handed to BatchDL is now")
S("W15", "C08", "C08-r10a", "R-C08-FEED", "EcCurve.TransformOrderLen (ec_util.py) now computes the right-shift of an over-long messag")
S("W16", "C08", "C08-r10b", "R-C08-OWN", "BiasedBaseCheck.Check (ecdsa_sig_checks.py) now creates the issuer_dlogs dict once before ")
S("W17", "C09", "C09-r10a", "R-C09-TRUNC", "EcCurve.TransformOrderLen (ec_util.py) now right-shifts a too-long hash only when its inte")
S("W18", "C09", "C09-r10b", "R-C09-BYTES", "util.Hex2Bytes now 'tolerates a 0x prefix' via hexstr_val.strip().lstrip('0x'); str.lstrip")
S("W19", "C10", "C10-r10a", "R-C10-FORMS", "EcCurve.ExtendedBatchDL (paranoid_crypto/lib/ec_util.py): quad_words is now computed first")
S("W20", "C10", "C10-r10b", "R-C10-DUP", "EcCurve.BatchDLOfDifferences (paranoid_crypto/lib/ec_util.py): a batch key that turns out ")
S("W21", "C11", "C11-r10a", "R-C11-DISPATCH", "EcCurve.AddJacobian now detects the doubling case by tuple identity of the two Jacobian tr")
S("W22", "C11", "C11-r10b", "R-C11-COMB", "EcCurve.BatchMultiplyG no longer reduces every scalar modulo the group order; it skips the")
S("W23", "C12", "C12-r10a", "R-C12-BITS", "util.Bits (the int -> +1/-1 array conversion used by RandomWalk and Spectral) now pads wit")
S("W24", "C12", "C12-r10b", "R-C12-CONSIST", "RankDistribution's shortcut that returns NIST's precomputed asymptotic rank probabilities ")
S("W25", "C13", "C13-r10a", "R-C13-STATE", "In TestStructure.Run the repeat bound (Fisher combination of the repeat level) was hoisted")
S("W26", "C13", "C13-r10b", "R-C13-RANK", "In extended_nist_suite.LargeBinaryMatrixRank the loop over matrix sizes was changed from `")
S("W27", "C14", "C14-r10a", "R-C14-BM", "Added an early exit to the main loop of berlekamp_massey.LinearComplexityNative that stops")
S("W28", "C14", "C14-r10b", "R-C14-CLOSED", "In berlekamp_massey.LfsrCount the lower-half branch 'int(2 * 4**(m - 1))' was rewritten as")
S("W29", "C16", "C16-r10a", "R-C16-ONCE", "rsa_util.BatchGCD got an early exit ('nothing to compare against') for fewer than two dist")
S("W30", "C16", "C16-r10b", "R-C16-ENTRY", "In rsa_single_checks.CheckLowHammingWeight.Check the documented severity downgrade for a m")
S("W31", "C17", "C17-r10a", "R-C17-CACHE", "In EcCurve.BatchDL (paranoid_crypto/lib/ec_util.py) the giant-step size was changed from t")
S("W32", "C17", "C17-r10b", "R-C17-BYVALUE", "In EcCurve.BatchDLOfDifferences (paranoid_crypto/lib/ec_util.py) the inner comparison loop")
S("W33", "C18", "C18-r10a", "R-C18-INVERT", "EcCurve.BatchAddX no longer reduces the x-difference p[0]-q[0] modulo the field prime befo")
S("W34", "C18", "C18-r10b", "R-C18-ALIGN", "util.GetAttachedFactors parses the stored factor strings with int(f_hex) (base 10) while u")
S("W35", "C19", "C19-r10a", "R-C19-LINALG", "In linalg_util.echelon_form, when a zero pivot row is rotated towards the bottom, the righ")
S("W36", "C19", "C19-r10b", "R-C19-SQRT", "In ntheory_util.Sqrt2exp the brute-force fall-back branch for k < 3 now compares x*x % 2**")
S("W37", "C20", "C20-r10a", "R-C20-WIDTH", "XorShift128plus.RandomBits computes the number of 64-bit blocks as n // 64 + 1 instead of ")
S("W38", "C20", "C20-r10b", "R-C20-PURE", "XorShiftStar.RandomBits now treats a seed whose low 64 bits are zero like a missing seed: ")


# ---------------------------------------------------------------------------------- arguments inside the domain (findings 14 / 15, fixed 56dc496 / b083ef8)
F("U38", "C12", NS, "    p_value2 = util.Igamc(2**(m - 3), max(0.0, d2_psi) / 2)", "    p_value2 = util.Igamc(2**(m - 3), d2_psi / 2)", "R-C12-DOMAIN", "the defect itself: second difference unclamped (NaN)")
F("U39", "C12", NS, "  if abs(pi - 0.5) >= 2 / math.sqrt(n):\n    return 0.0\n  v_obs", "  v_obs", "R-C12-DOMAIN", "the defect itself: no prerequisite, division by pi (1 - pi) = 0 on constant strings")
T("U40", "C12", NS, "    p_value2 = util.Igamc(2**(m - 3), max(0.0, d2_psi) / 2)", "    if d2_psi < 0:\n      d2_psi = 0.0\n    p_value2 = util.Igamc(2**(m - 3), d2_psi / 2)", "clamp spelled as a branch")
F("U41", "C12", NS, "  if abs(pi - 0.5) >= 2 / math.sqrt(n):\n    return 0.0", "  if abs(pi - 0.5) >= 1 / math.sqrt(n):\n    return 0.0", "R-C12-FORMULA", "prerequisite with the wrong threshold")
F("U42", "C11", L + "ec_util.py", "      w = inverses[i]\n      if w is None:\n        res[i] = INFINITY\n      else:\n        wsqr = w * w % mod\n        x = p[0] * wsqr % mod\n        wcube", "      w = inverses[i]\n      if w is not None:\n        res[i] = INFINITY\n      else:\n        wsqr = w * w % mod\n        x = p[0] * wsqr % mod\n        wcube", "R-C11-FORMULA", "infinity test of the batched conversion inverted")
T("U43", "C11", L + "ec_util.py", "      w = inverses[i]\n      if w is None:\n        res[i] = INFINITY\n      else:\n        wsqr = w * w % mod\n        x = p[0] * wsqr % mod\n        wcube = wsqr * w % mod\n        y = p[1] * wcube % mod\n        res[i] = (x, y)", "      w = inverses[i]\n      if w is not None:\n        wsqr = w * w % mod\n        x = p[0] * wsqr % mod\n        wcube = wsqr * w % mod\n        y = p[1] * wcube % mod\n        res[i] = (x, y)\n      else:\n        res[i] = INFINITY", "branches swapped with the test")
